// C20: reproducibility under owned heap nondeterminism, and frame independence.
//   every case is executed under four heap schedules {ascending, descending} x {no reuse, LIFO/FIFO reuse with unrelated
//   junk allocations interleaved}; results must be bit-identical (routes, solver positions, removeoverlaps) or equal to
//   1e-9 (layouts).  Routing scenes / VPSC problems are also translated by multiples of 2^-10 and put through the eight
//   symmetries of the square.
#include "libavoid/libavoid.h"
#include <libvpsc/solve_VPSC.h>
#include <libvpsc/variable.h>
#include <libvpsc/constraint.h>
#include <libvpsc/rectangle.h>
#include "libcola/cola.h"
#include "libcola/compound_constraints.h"
#include "libdialect/libdialect.h"
#include "libdialect/io.h"
#include "libdialect/hola.h"
#include "libdialect/opts.h"
#include <cmath>
#include <sstream>
#include <functional>
#include <set>
#include "mcx/mcx.h"
#include "mcx/arena.h"
#include "oracle/geom.h"
using namespace std;
static mcx::Ctx ctx;
struct Sig { double v[1024]; int n = 0; bool aborted = false; void add(double x) { if (n < 1024) v[n++] = x; } };
struct Sched { int dir, reuse, junk; const char *name; };
static const Sched SCHED[4] = {{mcx::HEAP_UP, mcx::REUSE_NONE, 0, "ascending"}, {mcx::HEAP_DOWN, mcx::REUSE_NONE, 0, "descending"}, {mcx::HEAP_UP, mcx::REUSE_LIFO, 1, "ascending+lifo+junk"}, {mcx::HEAP_DOWN, mcx::REUSE_FIFO, 2, "descending+fifo+junk"}};
static void junk(int kind) {   // unrelated work between runs: allocations of assorted sizes, some freed, so reuse lists are populated
    if (!kind) return; vector<char *> keep;
    for (int i = 0; i < 200; i++) { size_t sz = 16 + ((i * 37 + kind * 11) % 23) * 16; char *p = new char[sz]; p[0] = (char)i; if ((i + kind) % 3) keep.push_back(p); else delete[] p; }
    for (size_t i = 0; i < keep.size(); i += 2) delete[] keep[i];   // the rest is deliberately left allocated for the duration of the case
}

// "irrespective of what was ... COMPUTED in between": unrelated, complete pieces of library work (each uses only documented calls and
// leaves nothing behind that a caller is told to clean up); the case is run, the work is done, the case is run again
static const int NWORK = 6;
static const char *WORKNAME[NWORK] = {"ConstrainedFDLayout with overlap avoidance: makeFeasible+run", "removeoverlaps with a fixed set and third pass", "orthogonal Router transaction with nudging", "vpsc::IncSolver solve", "doHOLA on a small graph", "ConstrainedFDLayout::makeFeasible(2,3) with clusters"};
static void library_work(int kind) {
    if (kind == 0 || kind == 5) {
        vpsc::Rectangles rs; double px[4] = {0, 8, 30, 12}, py[4] = {0, 5, 0, 28}; for (int i = 0; i < 4; i++) rs.push_back(new vpsc::Rectangle(px[i] - 10, px[i] + 10, py[i] - 10, py[i] + 10));
        vector<cola::Edge> es = {cola::Edge(0, 1), cola::Edge(1, 2), cola::Edge(2, 3)}; cola::CompoundConstraints ccs; ccs.push_back(new cola::SeparationConstraint(vpsc::XDIM, 0, 2, 25));
        { cola::ConstrainedFDLayout alg(rs, es, 30); alg.setConstraints(ccs); alg.setAvoidNodeOverlaps(true); cola::RootCluster *root = nullptr;
          if (kind == 5) { root = new cola::RootCluster(); cola::RectangularCluster *a = new cola::RectangularCluster(); a->addChildNode(0); a->addChildNode(1); a->setPadding(cola::Box(3)); root->addChildCluster(a); alg.setClusterHierarchy(root); alg.makeFeasible(2, 3); }
          else { alg.makeFeasible(); alg.run(); }
          delete root; }
        for (auto r : rs) delete r; for (auto c : ccs) delete c;
    } else if (kind == 1) {
        vpsc::Rectangles rs; double q[5][4] = {{0, 20, 0, 20}, {5, 25, 5, 25}, {10, 40, 0, 10}, {0, 10, 15, 45}, {18, 22, 18, 22}}; for (auto &r : q) rs.push_back(new vpsc::Rectangle(r[0], r[1], r[2], r[3]));
        std::set<unsigned> fixed{0}; vpsc::removeoverlaps(rs, fixed, true); for (auto r : rs) delete r;
    } else if (kind == 2) {
        Avoid::Router *r = new Avoid::Router(Avoid::OrthogonalRouting); r->setRoutingParameter(Avoid::segmentPenalty, 30); r->setRoutingParameter(Avoid::crossingPenalty, 40);
        Avoid::Rectangle a(Avoid::Point(10, 0), Avoid::Point(30, 60)), b(Avoid::Point(50, 20), Avoid::Point(70, 90)); new Avoid::ShapeRef(r, a); new Avoid::ShapeRef(r, b);
        new Avoid::ConnRef(r, Avoid::ConnEnd(Avoid::Point(0, 30)), Avoid::ConnEnd(Avoid::Point(80, 35))); new Avoid::ConnRef(r, Avoid::ConnEnd(Avoid::Point(0, 40)), Avoid::ConnEnd(Avoid::Point(80, 45))); new Avoid::ConnRef(r, Avoid::ConnEnd(Avoid::Point(40, 0)), Avoid::ConnEnd(Avoid::Point(40, 100)));
        r->processTransaction(); delete r;
    } else if (kind == 3) {
        vpsc::Variables vs; for (int i = 0; i < 4; i++) vs.push_back(new vpsc::Variable(i, i % 2 ? 3 : 0, 1 + i)); vpsc::Constraints cs; cs.push_back(new vpsc::Constraint(vs[0], vs[1], 2)); cs.push_back(new vpsc::Constraint(vs[1], vs[2], 2)); cs.push_back(new vpsc::Constraint(vs[3], vs[2], 1, true));
        { vpsc::IncSolver sol(vs, cs); sol.solve(); } for (auto c : cs) delete c; for (auto v : vs) delete v;
    } else {
        std::string t = "0 0 0 30 30\n1 80 0 30 30\n2 80 80 30 30\n3 0 80 30 30\n4 160 0 30 30\n#\n0 1\n1 2\n2 3\n3 0\n1 4\n"; dialect::Graph_SP g = dialect::buildGraphFromTglf(t); dialect::HolaOpts o; dialect::doHOLA(*g, o);
    }
}
static bool g_interleave = false;   // also run: the case, unrelated library work, the case again
static void across_library_work(const string &desc, double tol, function<void(Sig &)> f);
// run f under every schedule; compare signatures.  tol==0 -> bit-identical
static void under_schedules(const string &desc, const char *clause, double tol, const vector<string> &kc, function<void(Sig &)> f) {
    static Sig sigs[4];
    for (int s = 0; s < 4; s++) { sigs[s].n = 0; sigs[s].aborted = false; mcx::heap_begin(SCHED[s].dir, SCHED[s].reuse, s == 3 ? 256 : s == 2 ? 0xA5 : 0); junk(SCHED[s].junk); try { f(sigs[s]); } catch (vpsc::CriticalFailure &) { sigs[s].aborted = true; } catch (std::exception &) { sigs[s].aborted = true; } mcx::heap_end(); }
    ctx.count("transitions", 4); ctx.count("evaluations");
    for (int s = 1; s < 4; s++) {
        if (sigs[s].aborted || sigs[0].aborted) { if (sigs[s].aborted != sigs[0].aborted) ctx.violation(clause, kc, desc, mcx::fmt("assertion under schedule %s only", sigs[s].aborted ? SCHED[s].name : SCHED[0].name)); else ctx.count("aborted_by_assert"); continue; }
        bool diff = sigs[s].n != sigs[0].n; int at = -1;
        for (int i = 0; i < sigs[0].n && !diff; i++) { double a = sigs[0].v[i], b = sigs[s].v[i]; if (tol == 0 ? (memcmp(&a, &b, sizeof a) != 0 && !(a == b)) : !(fabs(a - b) <= tol)) { diff = true; at = i; } }
        if (diff) { ctx.violation(clause, kc, desc, at >= 0 ? mcx::fmt("schedule %s vs %s: value #%d %.17g vs %.17g (of %d)", SCHED[0].name, SCHED[s].name, at, sigs[0].v[at], sigs[s].v[at], sigs[0].n) : mcx::fmt("different result sizes %d vs %d", sigs[0].n, sigs[s].n)); break; }
    }
    if (g_interleave) across_library_work(desc, tol, f);
}
static void plain(function<void(Sig &)> f, Sig &s) { s.n = 0; s.aborted = false; try { f(s); } catch (vpsc::CriticalFailure &) { s.aborted = true; } }
// the case, unrelated library work, the case again -- for every kind of work
static void across_library_work(const string &desc, double tol, function<void(Sig &)> f) {
    static Sig ref, again;
    for (int w = 0; w < NWORK; w++) {
        // inside the arena with ascending addresses: the ORDER of addresses is the same in both runs, so a dependence on address order (KF-C20-1)
        // does not show here -- what shows is state that the work leaves behind in the process (statics, globals, caches)
        mcx::heap_begin(mcx::HEAP_UP, mcx::REUSE_NONE, 0);
        plain(f, ref); try { library_work(w); } catch (...) { ctx.count("library_work_aborted"); } plain(f, again); ctx.count("transitions", 2);
        mcx::heap_end();
        if (ref.aborted || again.aborted) { if (ref.aborted != again.aborted) ctx.violation("result_depends_on_earlier_unrelated_work", {}, desc, mcx::fmt("assertion only %s [%s]", again.aborted ? "after" : "before", WORKNAME[w])); continue; }
        bool diff = ref.n != again.n; int at = -1;
        for (int i = 0; i < ref.n && !diff; i++) { double a = ref.v[i], b = again.v[i]; if (tol == 0 ? (memcmp(&a, &b, sizeof a) != 0 && !(a == b)) : !(fabs(a - b) <= tol)) { diff = true; at = i; } }
        if (diff) { ctx.violation("result_depends_on_earlier_unrelated_work", {}, desc, (at >= 0 ? mcx::fmt("value #%d %.17g vs %.17g", at, ref.v[at], again.v[at]) : string("different result sizes")) + " after [" + WORKNAME[w] + "]"); break; }
    }
}

// ---- VPSC --------------------------------------------------------------------------------
struct SC { int l, r; double gap; bool eq; };
static void vpsc_run(int n, const vector<double> &d, const vector<double> &w, const vector<SC> &cs, double shift, bool mirror, Sig &out) {
    vpsc::Variables vs; vpsc::Constraints vc;
    for (int i = 0; i < n; i++) vs.push_back(new vpsc::Variable(i, mirror ? -(d[i] + shift) : d[i] + shift, w[i]));
    for (auto &c : cs) vc.push_back(mirror ? new vpsc::Constraint(vs[c.r], vs[c.l], c.gap, c.eq) : new vpsc::Constraint(vs[c.l], vs[c.r], c.gap, c.eq));
    { vpsc::IncSolver s(vs, vc); s.solve(); }
    bool flag = false; for (auto c : vc) flag |= c->unsatisfiable;
    for (auto v : vs) out.add(mirror ? -v->finalPosition : v->finalPosition); out.add(flag);
    for (auto c : vc) delete c; for (auto v : vs) delete v;
}
static void vpsc_phase(int n, int maxm) {
    vector<SC> alpha; for (int l = 0; l < n; l++) for (int r = 0; r < n; r++) if (l != r) for (double g : {-1.0, 0.0, 2.0}) { alpha.push_back({l, r, g, false}); if (g == 2.0) alpha.push_back({l, r, g, true}); }
    ctx.phase(mcx::fmt("VPSC IncSolver n=%d m<=%d: 4 heap schedules, 3 translations, mirror", n, maxm));
    vector<double> dvals = {0, 1, 3};
    for (int m = 1; m <= maxm; m++) { vector<int> idx(m, 0);
        do { vector<int> dsel(n, 0); do { if (!ctx.next()) continue;
            vector<SC> cs; for (int i : idx) cs.push_back(alpha[i]); vector<double> d(n), w(n); for (int i = 0; i < n; i++) { d[i] = dvals[dsel[i]]; w[i] = (i % 2) ? 4 : 1; }
            string desc = mcx::fmt("VPSC n=%d cs:", n); for (auto &c : cs) desc += mcx::fmt(" %d+%g%s%d", c.l, c.gap, c.eq ? "==" : "<=", c.r); desc += " d:"; for (double x : d) desc += mcx::fmt(" %g", x);
            ctx.sample(desc, 1); ctx.count("states"); ctx.count("nontrivial");
            under_schedules(desc, "vpsc_depends_on_heap", 0, {}, [&](Sig &s) { vpsc_run(n, d, w, cs, 0, false, s); });
            Sig base, t; plain([&](Sig &s) { vpsc_run(n, d, w, cs, 0, false, s); }, base);
            for (double sh : {1.0 / 1024, 1025.0 / 1024, -3072.0}) { plain([&](Sig &s) { vpsc_run(n, d, w, cs, sh, false, s); }, t); ctx.count("transitions");
                if (!base.aborted && !t.aborted) for (int i = 0; i < n; i++) if (!(fabs(t.v[i] - (base.v[i] + sh)) <= 1e-9)) { ctx.violation("vpsc_not_translation_invariant", {}, desc + mcx::fmt(" shift %.17g", sh), mcx::fmt("x%d %.17g vs %.17g+shift", i, t.v[i], base.v[i])); break; } }
            plain([&](Sig &s) { vpsc_run(n, d, w, cs, 0, true, s); }, t); ctx.count("transitions");
            if (!base.aborted && !t.aborted && base.v[n] == 0 && t.v[n] == 0) for (int i = 0; i < n; i++) if (!(fabs(t.v[i] - base.v[i]) <= 1e-9)) { ctx.violation("vpsc_not_mirror_invariant", {}, desc, mcx::fmt("x%d %.17g vs %.17g", i, t.v[i], base.v[i])); break; }
            ctx.done_case(); } while (mcx::odo_next(dsel, 3)); } while (mcx::multiset_next(idx, alpha.size()) && !ctx.stopped()); }
}
// ---- removeoverlaps ------------------------------------------------------------------------
static void ro_phase(int n, int G) {
    struct R { int x0, x1, y0, y1; }; vector<R> alpha; for (int x0 = 0; x0 < G; x0++) for (int x1 = x0 + 1; x1 <= G; x1++) for (int y0 = 0; y0 < G; y0++) for (int y1 = y0 + 1; y1 <= G; y1++) alpha.push_back({x0, x1, y0, y1});
    ctx.phase(mcx::fmt("removeoverlaps n=%d grid %d: 4 heap schedules", n, G));
    vector<int> idx(n, 0);
    do { if (!ctx.next()) continue; string desc = "removeoverlaps rects:"; for (int i : idx) desc += mcx::fmt(" [%d,%d]x[%d,%d]", alpha[i].x0, alpha[i].x1, alpha[i].y0, alpha[i].y1);
        ctx.sample(desc, 1); ctx.count("states"); bool ident = false; for (int i = 1; i < n; i++) if (idx[i] == idx[i - 1]) ident = true; if (ident) ctx.count("nontrivial");
        for (int third = 0; third < 2; third++) {
            auto f = [&](double sx, double sy, Sig &s) { vpsc::Rectangles rs; for (int i : idx) rs.push_back(new vpsc::Rectangle(alpha[i].x0 * 10 + sx, alpha[i].x1 * 10 + sx, alpha[i].y0 * 10 + sy, alpha[i].y1 * 10 + sy)); set<unsigned> fixed; try { vpsc::removeoverlaps(rs, fixed, third); } catch (...) { vpsc::Rectangle::setXBorder(0); vpsc::Rectangle::setYBorder(0); s.aborted = true; } for (auto r : rs) { s.add(r->getMinX() - sx); s.add(r->getMinY() - sy); delete r; } };
            under_schedules(desc + mcx::fmt(" thirdPass=%d", third), "removeoverlaps_depends_on_heap", 0, {}, [&](Sig &s) { f(0, 0, s); });
        }
        ctx.done_case(); } while (mcx::multiset_next(idx, alpha.size()) && !ctx.stopped());
}
// ---- routing -------------------------------------------------------------------------------
typedef geo::Poly Poly;
static void sym(int k, double x, double y, double &ox, double &oy) { switch (k) { case 0: ox = x; oy = y; break; case 1: ox = -y; oy = x; break; case 2: ox = -x; oy = -y; break; case 3: ox = y; oy = -x; break; case 4: ox = -x; oy = y; break; case 5: ox = x; oy = -y; break; case 6: ox = y; oy = x; break; default: ox = -y; oy = -x; } }
static unsigned g_srcDir = 15;   // visibility directions of every connector's SOURCE end in the base frame (mapped under the symmetries)
static unsigned symdir(int k, unsigned d) { unsigned r = 0; static const int VX[4] = {0, 0, -1, 1}, VY[4] = {-1, 1, 0, 0}; /* Up, Down, Left, Right */ for (int b = 0; b < 4; b++) if (d >> b & 1) { double ox, oy; switch (k) { case 0: ox = VX[b]; oy = VY[b]; break; case 1: ox = -VY[b]; oy = VX[b]; break; case 2: ox = -VX[b]; oy = -VY[b]; break; case 3: ox = VY[b]; oy = -VX[b]; break; case 4: ox = -VX[b]; oy = VY[b]; break; case 5: ox = VX[b]; oy = -VY[b]; break; case 6: ox = VY[b]; oy = VX[b]; break; default: ox = -VY[b]; oy = -VX[b]; } r |= oy < 0 ? 1u : oy > 0 ? 2u : ox < 0 ? 4u : 8u; } return r; }
static int g_params = 0;   // 0 defaults; 1 reverseDirectionPenalty + crossingPenalty; 2 anglePenalty + fixedSharedPathPenalty + shapeBufferDistance
static void route_scene(const vector<Poly> &sc, const vector<pair<geo::P, geo::P>> &eps, bool ortho, int symk, double tx, double ty, Sig &out, bool cost) {
    const int S = 10; Avoid::Router *r = new Avoid::Router(ortho ? Avoid::OrthogonalRouting : Avoid::PolyLineRouting); r->setRoutingParameter(Avoid::segmentPenalty, ortho ? 20 : 0);
    if (g_params == 1) r->setRoutingParameter(Avoid::reverseDirectionPenalty, 100);
    if (g_params == 2) r->setRoutingParameter(Avoid::anglePenalty, 30);
    if (g_params == 3) { r->setRoutingParameter(Avoid::crossingPenalty, 50); r->setRoutingParameter(Avoid::fixedSharedPathPenalty, 40); }   // these couple the connectors of a scene
    for (auto &sh : sc) { Avoid::Polygon pg(sh.v.size()); vector<Avoid::Point> pts; for (auto &v : sh.v) { double x, y; sym(symk, v.x * S, v.y * S, x, y); pts.push_back(Avoid::Point(x + tx, y + ty)); }
        // keep the winding libavoid expects: reflections reverse it
        if (symk >= 4) reverse(pts.begin(), pts.end()); for (size_t k = 0; k < pts.size(); k++) pg.ps[k] = pts[k]; new Avoid::ShapeRef(r, pg); }
    vector<Avoid::ConnRef *> cs; for (auto &e : eps) { double ax, ay, bx, by; sym(symk, e.first.x * S, e.first.y * S, ax, ay); sym(symk, e.second.x * S, e.second.y * S, bx, by); cs.push_back(new Avoid::ConnRef(r, Avoid::ConnEnd(Avoid::Point(ax + tx, ay + ty), (Avoid::ConnDirFlags)symdir(symk, g_srcDir)), Avoid::ConnEnd(Avoid::Point(bx + tx, by + ty)))); }
    r->processTransaction();
    for (auto c : cs) { const Avoid::PolyLine &d = ortho ? c->route() : c->displayRoute();
        if (cost) { double l = 0; for (size_t i = 1; i < d.size(); i++) l += ortho ? fabs(d.ps[i].x - d.ps[i - 1].x) + fabs(d.ps[i].y - d.ps[i - 1].y) : hypot(d.ps[i].x - d.ps[i - 1].x, d.ps[i].y - d.ps[i - 1].y); int b = 0; for (size_t i = 2; i < d.size(); i++) { bool col = (d.ps[i - 2].x == d.ps[i - 1].x && d.ps[i - 1].x == d.ps[i].x) || (d.ps[i - 2].y == d.ps[i - 1].y && d.ps[i - 1].y == d.ps[i].y); if (!col) b++; } out.add(l + (ortho ? 20 * b : 0)); }
        else { out.add(d.size()); for (size_t i = 0; i < d.size(); i++) { out.add(d.ps[i].x - tx); out.add(d.ps[i].y - ty); } } }
    delete r;
}
static void routing_phase(int G, int k, bool ortho, int params = 0) {
    g_params = params; g_srcDir = params == 4 ? 2u : params == 5 ? 8u : params == 6 ? 4u : params == 7 ? 1u : 15u;   // 4-7: the source end may only be left downwards / to the right / to the left / upwards
    vector<Poly> alpha; for (int x0 = 0; x0 < G; x0++) for (int x1 = x0 + 1; x1 <= G; x1++) for (int y0 = 0; y0 < G; y0++) for (int y1 = y0 + 1; y1 <= G; y1++) { alpha.push_back(geo::rect(x0, y0, x1, y1)); if (!ortho) { Poly t; t.v = {{x1, y0}, {x1, y1}, {x0, y0}}; alpha.push_back(t); } }
    ctx.phase(mcx::fmt("%s routing G=%d shapes=%d parameters=%s: 4 heap schedules, 3 translations, 8 symmetries", ortho ? "orthogonal" : "polyline", G, k, params == 0 ? "defaults" : params == 1 ? "reverseDirectionPenalty" : params == 2 ? "anglePenalty" : params == 3 ? "crossingPenalty+fixedSharedPathPenalty" : params == 4 ? "source ends ConnDirDown" : params == 5 ? "source ends ConnDirRight" : params == 6 ? "source ends ConnDirLeft" : "source ends ConnDirUp"));
    vector<int> idx(k); for (int i = 0; i < k; i++) idx[i] = i;
    do { bool ok = true; for (int i = 0; i < k; i++) for (int j = i + 1; j < k; j++) { if (ortho) { geo::R a{(int)alpha[idx[i]].v[3].x, (int)alpha[idx[i]].v[0].y, (int)alpha[idx[i]].v[0].x, (int)alpha[idx[i]].v[1].y}, b{(int)alpha[idx[j]].v[3].x, (int)alpha[idx[j]].v[0].y, (int)alpha[idx[j]].v[0].x, (int)alpha[idx[j]].v[1].y}; if (!(a.x1 + 1 <= b.x0 || b.x1 + 1 <= a.x0 || a.y1 + 1 <= b.y0 || b.y1 + 1 <= a.y0)) ok = false; } else if (geo::interiorsOverlap(alpha[idx[i]], alpha[idx[j]])) ok = false; }
        if (!ok) continue; if (!ctx.next()) continue;
        vector<Poly> sc; for (int i : idx) sc.push_back(alpha[i]);
        vector<geo::P> fr; for (int x = 0; x <= G; x++) for (int y = 0; y <= G; y++) { geo::P q{x, y}; bool in = false; for (auto &s : sc) if (geo::inClosed(s, q)) in = true; if (!in) fr.push_back(q); }
        vector<pair<geo::P, geo::P>> eps; for (size_t a = 0; a < fr.size(); a++) for (size_t b = a + 1; b < fr.size(); b++) if ((a * 7 + b) % (ortho ? 3 : 1) == 0 && eps.size() < 60) eps.push_back({fr[a], fr[b]});
        string desc = string(ortho ? "orthogonal" : "polyline") + mcx::fmt(" params#%d scene", params); for (auto &p : sc) { desc += " ["; for (auto &v : p.v) desc += mcx::fmt("(%lld,%lld)", v.x, v.y); desc += "]"; } desc += mcx::fmt(" %zu connectors", eps.size());
        ctx.sample(desc, 1); ctx.count("states"); ctx.count("nontrivial");
        under_schedules(desc, "route_depends_on_heap", 0, {}, [&](Sig &s) { route_scene(sc, eps, ortho, 0, 0, 0, s, false); });
        static Sig base, t; plain([&](Sig &s) { route_scene(sc, eps, ortho, 0, 0, 0, s, false); }, base);
        double T[3][2] = {{1.0 / 1024, 0}, {1025.0 / 1024, -3}, {-3072, 4096.5}};
        for (auto &tr : T) { plain([&](Sig &s) { route_scene(sc, eps, ortho, 0, tr[0], tr[1], s, false); }, t); ctx.count("transitions");
            if (!base.aborted && !t.aborted) { bool diff = base.n != t.n; int at = -1; for (int i = 0; i < base.n && !diff; i++) if (base.v[i] != t.v[i]) { diff = true; at = i; } if (diff) ctx.violation("route_not_translation_invariant", {}, desc + mcx::fmt(" translate (%.17g,%.17g)", tr[0], tr[1]), at >= 0 ? mcx::fmt("value #%d %.17g vs %.17g", at, base.v[at], t.v[at]) : "different route sizes"); } }
        static Sig cbase, ct; plain([&](Sig &s) { route_scene(sc, eps, ortho, 0, 0, 0, s, true); }, cbase);
        // cost invariance under the symmetries is claimed for independent connectors; crossing / shared-path penalties couple the connectors of a
        // scene and which of two equally good candidates is rerouted is (legitimately) decided by connector ids
        for (int sk = 1; sk < 8 && params != 3 && params < 4; sk++) {   /* (direction-restricted ends: only the single-connector form below) */ plain([&](Sig &s) { route_scene(sc, eps, ortho, sk, 0, 0, s, true); }, ct); ctx.count("transitions");
            if (!cbase.aborted && !ct.aborted) for (int i = 0; i < cbase.n; i++) if (!(fabs(cbase.v[i] - ct.v[i]) <= 1e-9)) {
                // class: the connector shares an endpoint POSITION with another connector of the scene (coincident endpoint vertices of different
                // connectors: which of them a visibility edge is attached to depends on the scan order, and the search skips foreign endpoints)
                vector<string> kc; for (size_t j = 0; j < eps.size(); j++) if ((int)j != i) for (auto &q : {eps[j].first, eps[j].second}) if ((q.x == eps[i].first.x && q.y == eps[i].first.y) || (q.x == eps[i].second.x && q.y == eps[i].second.y)) { if (kc.empty()) kc.push_back("shares_endpoint_position_with_another_connector"); }
                ctx.violation("route_cost_not_symmetry_invariant", kc, desc + mcx::fmt(" symmetry #%d", sk), mcx::fmt("connector %d cost %.17g vs %.17g", i, cbase.v[i], ct.v[i])); break; } }
        // ... and every connector ALONE in its own router (no coincident endpoints, no coupling): the clean form of the symmetry clause
        if (params == 1 || params == 2 || params >= 4) for (size_t i = 0; i < eps.size(); i++) { vector<pair<geo::P, geo::P>> one{eps[i]};
            static Sig ob, ot; plain([&](Sig &s) { route_scene(sc, one, ortho, 0, 0, 0, s, true); }, ob);
            for (int sk = 1; sk < 8; sk++) { plain([&](Sig &s) { route_scene(sc, one, ortho, sk, 0, 0, s, true); }, ot); ctx.count("transitions");
                if (!ob.aborted && !ot.aborted && ob.n > 0 && ot.n > 0 && !(fabs(ob.v[0] - ot.v[0]) <= 1e-9)) { ctx.violation("route_cost_not_symmetry_invariant", {"single_connector"}, desc + mcx::fmt(" connector (%lld,%lld)->(%lld,%lld) alone, symmetry #%d", eps[i].first.x, eps[i].first.y, eps[i].second.x, eps[i].second.y, sk), mcx::fmt("cost %.17g vs %.17g", ob.v[0], ot.v[0])); break; } } }
        ctx.done_case();
    } while (mcx::subset_next(idx, alpha.size()) && !ctx.stopped());
}
// two shapes, two pins each, two connectors pin-class -> pin-class: the pin pairing must not depend on the heap
static void pins_phase() {
    ctx.phase("pin assignment: two shapes with 2 R / 2 L pins, two connectors, 4 heap schedules x routing mode x shape offsets");
    for (int ortho = 0; ortho < 2; ortho++) for (int dy = -2; dy <= 2; dy++) for (int gap = 2; gap <= 4; gap++) { if (!ctx.next()) continue;
        string desc = mcx::fmt("%s pins: shapes [20,20..40,60] and [%d,%d..%d,%d], two R pins / two L pins (class 1, insideOffset 2), 2 connectors", ortho ? "orthogonal" : "polyline", 20 + gap * 20 + 20, 20 + dy * 10, 40 + gap * 20 + 20, 60 + dy * 10);
        ctx.sample(desc, 1); ctx.count("states"); ctx.count("nontrivial");
        under_schedules(desc, "pin_assignment_depends_on_heap", 0, {}, [&](Sig &s) {
            Avoid::Router *r = new Avoid::Router(ortho ? Avoid::OrthogonalRouting : Avoid::PolyLineRouting);
            Avoid::Rectangle ra(Avoid::Point(20, 20), Avoid::Point(40, 60)), rb(Avoid::Point(40 + gap * 20, 20 + dy * 10), Avoid::Point(60 + gap * 20, 60 + dy * 10));
            Avoid::ShapeRef *a = new Avoid::ShapeRef(r, ra), *b = new Avoid::ShapeRef(r, rb);
            for (double yy : {0.25, 0.75}) { new Avoid::ShapeConnectionPin(a, 1, Avoid::ATTACH_POS_RIGHT, yy, true, 2, Avoid::ConnDirRight); new Avoid::ShapeConnectionPin(b, 1, Avoid::ATTACH_POS_LEFT, yy, true, 2, Avoid::ConnDirLeft); }
            Avoid::ConnRef *c1 = new Avoid::ConnRef(r, Avoid::ConnEnd(a, 1), Avoid::ConnEnd(b, 1)), *c2 = new Avoid::ConnRef(r, Avoid::ConnEnd(a, 1), Avoid::ConnEnd(b, 1));
            r->processTransaction();
            for (auto c : {c1, c2}) { const Avoid::PolyLine &d = c->displayRoute(); s.add(d.size()); for (size_t i = 0; i < d.size(); i++) { s.add(d.ps[i].x); s.add(d.ps[i].y); } }
            delete r; });
        ctx.done_case(); }
}
// Symmetry of PIN CHOICE: a square shape centred at the origin (every symmetry maps it onto itself) with two pins of one class -- any two of
// twelve side positions, each looking out of its side, the second one dearer (connection cost 100) -- a connector from the pin class to a free grid
// point (the grid contains the pins' diagonals), portDirectionPenalty 0 or 200.  The pins' positions and directions are mapped with the scene;
// the route's cost (length + 50 per bend for orthogonal, + the connection cost of the pin used) must not change.
static void pin_symmetry_phase(bool ortho, double portPen, int step) {
    ctx.phase(mcx::fmt("pin choice under the eight symmetries: %s, square shape with two pins of one class (12 side positions each, second pin dearer), portDirectionPenalty=%g, every %d-th (pin pair, target)", ortho ? "orthogonal" : "polyline", portPen, step));
    struct PinDef { double fx, fy; unsigned dir; }; vector<PinDef> PD;
    for (double t : {0.25, 0.5, 0.75}) { PD.push_back({t, 0, 1u}); PD.push_back({t, 1, 2u}); PD.push_back({0, t, 4u}); PD.push_back({1, t, 8u}); }   // top (Up), bottom (Down), left, right
    vector<pair<int, int>> targets; for (int x = -50; x <= 50; x += 10) for (int y = -50; y <= 50; y += 10) if (abs(x) > 20 || abs(y) > 20) targets.push_back({x, y});   // multiples of 10, like the pins (inside offset 10): the diagonals through every pin are on the grid
    auto run = [&](int k, const PinDef &A, const PinDef &B, pair<int, int> T, Sig &out) {
        Avoid::Router *r = new Avoid::Router(ortho ? Avoid::OrthogonalRouting : Avoid::PolyLineRouting); r->setRoutingParameter(Avoid::segmentPenalty, ortho ? 50 : 0); r->setRoutingParameter(Avoid::portDirectionPenalty, portPen);
        Avoid::Rectangle rc(Avoid::Point(-20, -20), Avoid::Point(20, 20)); Avoid::ShapeRef *sh = new Avoid::ShapeRef(r, rc);
        double pinx[2], piny[2]; int q = 0;
        for (const PinDef *pd : {&A, &B}) { double vx, vy; sym(k, pd->fx - 0.5, pd->fy - 0.5, vx, vy); Avoid::ShapeConnectionPin *pin = new Avoid::ShapeConnectionPin(sh, 1, vx + 0.5, vy + 0.5, true, 10, (Avoid::ConnDirFlags)symdir(k, pd->dir)); pin->setExclusive(false); if (q == 1) pin->setConnectionCost(100); pinx[q] = pin->position().x; piny[q] = pin->position().y; q++; }   // inside offset 10: a pin exactly on the border is KF-C11-1's degenerate class (routes run along the border)
        double tx, ty; sym(k, T.first, T.second, tx, ty);
        Avoid::ConnRef *c = new Avoid::ConnRef(r, Avoid::ConnEnd(sh, 1), Avoid::ConnEnd(Avoid::Point(tx, ty))); r->processTransaction();
        const Avoid::PolyLine &d = ortho ? c->route() : c->displayRoute(); double l = 0; int b = 0;
        for (size_t i = 1; i < d.size(); i++) l += ortho ? fabs(d.ps[i].x - d.ps[i - 1].x) + fabs(d.ps[i].y - d.ps[i - 1].y) : hypot(d.ps[i].x - d.ps[i - 1].x, d.ps[i].y - d.ps[i - 1].y);
        for (size_t i = 2; i < d.size(); i++) { bool col = (d.ps[i - 2].x == d.ps[i - 1].x && d.ps[i - 1].x == d.ps[i].x) || (d.ps[i - 2].y == d.ps[i - 1].y && d.ps[i - 1].y == d.ps[i].y); if (!col) b++; }
        int used = -1; if (d.size() >= 1) for (int w = 0; w < 2; w++) if (fabs(d.ps[0].x - pinx[w]) < 1e-9 && fabs(d.ps[0].y - piny[w]) < 1e-9) { used = w; break; }
        out.add(l + (ortho ? 50 * b : 0) + (used == 1 ? 100 : 0)); out.add(used);
        delete r; };
    size_t cnt = 0;
    for (size_t a = 0; a < PD.size(); a++) for (size_t b2 = 0; b2 < PD.size(); b2++) for (auto &T : targets) { if (a == b2) continue; /* coincident pins of one class: which one is used is not defined */ if ((cnt++ % step) != 0) continue; if (!ctx.next()) continue; ctx.count("states");
        string desc = mcx::fmt("%s portDirectionPenalty=%g shape [-20,20]^2 pins A(%g,%g dir %u, cost 0) B(%g,%g dir %u, cost 100) connector pin class -> (%d,%d)", ortho ? "orthogonal" : "polyline", portPen, PD[a].fx, PD[a].fy, PD[a].dir, PD[b2].fx, PD[b2].fy, PD[b2].dir, T.first, T.second);
        ctx.sample(desc, 1); ctx.announce(desc);
        static Sig base, tr; plain([&](Sig &s2) { run(0, PD[a], PD[b2], T, s2); }, base);
        { double ax = (PD[a].fx - 0.5) * 40, ay = (PD[a].fy - 0.5) * 40; ax += PD[a].fx == 0 ? 10 : PD[a].fx == 1 ? -10 : 0; ay += PD[a].fy == 0 ? 10 : PD[a].fy == 1 ? -10 : 0; if (fabs(fabs(T.first - ax) - fabs(T.second - ay)) < 1e-9) ctx.count("nontrivial"); }   // the target lies on a diagonal of the cheap pin: the border between two direction quadrants
        for (int k = 1; k < 8; k++) { plain([&](Sig &s2) { run(k, PD[a], PD[b2], T, s2); }, tr); ctx.count("transitions"); ctx.count("evaluations");
            if (base.aborted || tr.aborted) { if (base.aborted != tr.aborted) ctx.violation("route_cost_not_symmetry_invariant", {"pin_choice", "assertion_in_one_frame_only"}, desc + mcx::fmt(" symmetry #%d", k), "an assertion failed in one frame only"); continue; }
            if (!(fabs(base.v[0] - tr.v[0]) <= 1e-9)) { ctx.violation("route_cost_not_symmetry_invariant", {"pin_choice"}, desc + mcx::fmt(" symmetry #%d", k), mcx::fmt("cost %.17g (pin %c) vs %.17g (pin %c)", base.v[0], base.v[1] == 0 ? 'A' : base.v[1] == 1 ? 'B' : '?', tr.v[0], tr.v[1] == 0 ? 'A' : tr.v[1] == 1 ? 'B' : '?')); break; } }
        ctx.done_case(); }
}
// ---- libcola -------------------------------------------------------------------------------
static void cola_phase(int step) {
    ctx.phase(mcx::fmt("ConstrainedFDLayout n=3 with constraints and overlap avoidance, connected and DISCONNECTED edge sets {0-1 1-2; 0-1; none}: 4 heap schedules incl. dirty memory (positions to 1e-9), every %d-th placement", step));
    double GRID[3] = {0, 10, 30};
    for (int code = 0; code < 729; code += step) for (int variant = 0; variant < 4; variant++) for (int ev = 0; ev < 3; ev++) { if (!ctx.next()) continue;
        string desc = mcx::fmt("cola n=3 placement code %d variant %d edges %s", code, variant, ev == 0 ? "0-1 1-2" : ev == 1 ? "0-1 (node 2 isolated)" : "none"); ctx.sample(desc, 1); ctx.count("states"); ctx.count("nontrivial");
        under_schedules(desc, "layout_depends_on_heap", 1e-9, {}, [&](Sig &s) {
            vpsc::Rectangles rs; int c = code; for (int i = 0; i < 3; i++) { double x = GRID[c % 3]; c /= 3; double y = GRID[c % 3]; c /= 3; rs.push_back(new vpsc::Rectangle(x - 10, x + 10, y - 10, y + 10)); }
            vector<cola::Edge> es; if (ev <= 1) es.push_back(cola::Edge(0, 1)); if (ev == 0) es.push_back(cola::Edge(1, 2)); cola::CompoundConstraints ccs;
            if (variant & 1) ccs.push_back(new cola::SeparationConstraint(vpsc::XDIM, 0, 1, 15)); if (variant & 2) { cola::AlignmentConstraint *a = new cola::AlignmentConstraint(vpsc::YDIM); a->addShape(0, 0); a->addShape(2, 7); ccs.push_back(a); }
            { cola::ConstrainedFDLayout alg(rs, es, 30); alg.setConstraints(ccs); alg.setAvoidNodeOverlaps(variant >= 2); alg.makeFeasible(); alg.run(); }
            for (auto r : rs) { s.add(r->getCentreX()); s.add(r->getCentreY()); delete r; } for (auto cc : ccs) delete cc; });
        ctx.done_case(); }
}
// ---- HOLA ----------------------------------------------------------------------------------
static void hola_phase(int n) {
    typedef vector<pair<int, int>> EL; EL all; for (int i = 0; i < n; i++) for (int j = i + 1; j < n; j++) all.push_back({i, j});
    ctx.phase(mcx::fmt("doHOLA n=%d all labelled connected graphs x link mode: 4 heap schedules (positions to 1e-9)", n));
    for (unsigned mask = 1; mask < (1u << all.size()) && !ctx.stopped(); mask++) { EL es; for (size_t k = 0; k < all.size(); k++) if (mask >> k & 1) es.push_back(all[k]);
        vector<int> p(n); for (int i = 0; i < n; i++) p[i] = i; function<int(int)> fnd = [&](int x) { return p[x] == x ? x : p[x] = fnd(p[x]); }; for (auto &e : es) p[fnd(e.first)] = fnd(e.second); bool conn = true; for (int i = 1; i < n; i++) if (fnd(i) != fnd(0)) conn = false; if (!conn) continue;
        for (int aca = 0; aca < 2; aca++) { if (!ctx.next()) continue;
            string desc = mcx::fmt("doHOLA n=%d useACAforLinks=%d edges:", n, aca); for (auto &e : es) desc += mcx::fmt(" %d-%d", e.first, e.second);
            ctx.sample(desc, 1); ctx.count("states"); if ((int)es.size() >= n) ctx.count("nontrivial");
            under_schedules(desc, "hola_depends_on_heap", 1e-9, {"call:doHOLA"}, [&](Sig &s) {
                ostringstream t; for (int i = 0; i < n; i++) { double a = 2 * M_PI * i / n; t << i << " " << 100 + 80 * cos(a) << " " << 100 + 80 * sin(a) << " 30 30\n"; } t << "#\n"; for (auto &e : es) t << e.first << " " << e.second << "\n"; string str = t.str();
                dialect::Graph_SP g = dialect::buildGraphFromTglf(str); dialect::HolaOpts opts; opts.useACAforLinks = aca; dialect::doHOLA(*g, opts);
                vector<pair<int, Avoid::Point>> ps; for (auto &q : g->getNodeLookup()) ps.push_back({q.second->getExternalId(), q.second->getCentre()}); sort(ps.begin(), ps.end(), [](const pair<int, Avoid::Point> &a, const pair<int, Avoid::Point> &b) { return a.first < b.first; });
                for (auto &q : ps) { s.add(q.second.x); s.add(q.second.y); } });
            ctx.done_case(); } }
}
int main(int argc, char **argv) {
    ctx.init(argc, argv);
    bool T = ctx.thorough();
    { Sig s; plain([&](Sig &q) { route_scene({geo::rect(1, 1, 2, 2)}, {{{0, 0}, {3, 3}}}, true, 0, 0, 0, q, false); }, s); }   // warm-up in system mode
    for (int w = 0; w < NWORK; w++) library_work(w);   // every kind of interleaved work once in system mode (lazily built statics must not live in the arena)
    g_interleave = true; vpsc_phase(2, 2); g_interleave = false; vpsc_phase(3, 2); g_interleave = true; ro_phase(2, 3); ro_phase(3, 2); g_interleave = T; ro_phase(3, 3);
    g_interleave = true; routing_phase(3, 1, false); routing_phase(3, 1, true); g_interleave = T; routing_phase(3, 2, false); routing_phase(4, 2, true); g_interleave = false;
    for (int ps = 4; ps <= 7; ps++) { routing_phase(3, 1, true, ps); routing_phase(3, 2, true, ps); } g_srcDir = 15;   // (two-direction masks are not in the alphabet: Down|Left is routed differently from its half turn Up|Right on the unchanged tree, the direction-restricted sub-optimality of KF-C05-1..3)
    for (int ps = 1; ps <= 3; ps++) { routing_phase(3, 1, true, ps); routing_phase(3, 1, false, ps); routing_phase(3, 2, true, ps); routing_phase(3, 2, false, ps); } g_params = 0;
    for (int o = 0; o < 2; o++) for (double pp : {200.0, 0.0}) pin_symmetry_phase(o, pp, T ? 1 : (pp > 0 ? 3 : 7));
    g_interleave = true; pins_phase(); cola_phase(T ? 1 : 9); hola_phase(3); g_interleave = T; hola_phase(4); g_interleave = false;
    if (T) { for (int ps = 1; ps <= 2; ps++) routing_phase(4, 2, true, ps); g_params = 0; vpsc_phase(3, 3); ro_phase(4, 2); routing_phase(4, 1, false); routing_phase(4, 2, false); hola_phase(5); }
    return ctx.finish();
}
