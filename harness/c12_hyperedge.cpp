// C12: hyperedges (k terminals on shape pins, star through one junction or given as a terminal list) under
// hyperedge improvement / full rerouting / a follow-up move, explored under both heap address orders.
#include "libavoid/libavoid.h"
#include <cmath>
#include <set>
#include <map>
#include <vector>
#include <functional>
#include "mcx/mcx.h"
#include "mcx/arena.h"
using namespace Avoid; using namespace std;
static mcx::Ctx ctx;
struct Cfg { int opt, reg; int second; int obstacle; int heap; int mixed = 0; int chain = 0; };   // second: 0 nothing, 1 a transaction that moves a terminal, 2 a SECOND full rerouting in the next transaction, 3 all but two terminal connectors deleted and the junction removed with removeJunctionAndMergeConnectors()   // mixed: every other connector is created junction -> terminal instead of terminal -> junction
static string cfg_str(const Cfg &c) { return mcx::fmt("improve=%s register=%s second_transaction=%d obstacle=%d heap=%s", c.opt == 0 ? "off" : c.opt == 1 ? "moving" : "moving+adding+deleting", c.reg == 0 ? "none" : c.reg == 1 ? "by junction" : "by terminal list", c.second, c.obstacle, c.heap == 0 ? "system" : c.heap == 1 ? "ascending" : "descending") + (c.mixed ? " connectors in mixed orientation" : "") + (c.chain ? " last terminal attached through a two-connector junction" : ""); }

static void run(const vector<pair<int, int>> &shapePos, pair<int, int> jpos, const Cfg &c) {
    string desc = "terminals:"; for (auto &p : shapePos) desc += mcx::fmt(" (%d,%d)", p.first, p.second); desc += mcx::fmt(" junction cell (%d,%d) ", jpos.first, jpos.second) + cfg_str(c);
    ctx.announce(desc); ctx.count("evaluations");
    // known-finding class: three terminals in one row or one column (a terminal's pin then lies on the tree path between two others)
    vector<string> kc; for (size_t a = 0; a < shapePos.size(); a++) for (size_t b = a + 1; b < shapePos.size(); b++) for (size_t d = b + 1; d < shapePos.size(); d++) if ((shapePos[a].first == shapePos[b].first && shapePos[b].first == shapePos[d].first) || (shapePos[a].second == shapePos[b].second && shapePos[b].second == shapePos[d].second)) { if (kc.empty()) kc.push_back("three_terminals_collinear"); }
    // NOTE: nothing that outlives the case (ctx counters, class sets) may be allocated between heap_begin and heap_end
    int nTrans = 0, nStates = 0, rConn = -1; size_t rJunc = 0; bool aborted = false; char abortWhat[600] = ""; char whyBuf[120] = "", obsBuf[200] = ""; bool pinOnPath = false, throughTerminal = false;
    if (c.heap) mcx::heap_begin(c.heap, mcx::REUSE_NONE, 0);
    {
    string why, obs;
    try {
        Router *router = new Router(OrthogonalRouting); router->setRoutingParameter(segmentPenalty, 50); router->setRoutingParameter(idealNudgingDistance, 2);
        router->setRoutingOption(improveHyperedgeRoutesMovingJunctions, c.opt >= 1); router->setRoutingOption(improveHyperedgeRoutesMovingAddingAndDeletingJunctions, c.opt >= 2);
        vector<ShapeRef *> shapes;
        for (auto &p : shapePos) { Rectangle r(Point(p.first * 20 - 4, p.second * 20 - 4), Point(p.first * 20 + 4, p.second * 20 + 4)); ShapeRef *s = new ShapeRef(router, r); new ShapeConnectionPin(s, 1, ATTACH_POS_RIGHT, ATTACH_POS_CENTRE, true, 2, ConnDirRight); new ShapeConnectionPin(s, 1, ATTACH_POS_LEFT, ATTACH_POS_CENTRE, true, 2, ConnDirLeft); shapes.push_back(s); }
        if (c.obstacle) { Rectangle r(Point(jpos.first * 20 + 6, jpos.second * 20 + 26), Point(jpos.first * 20 + 14, jpos.second * 20 + 34)); new ShapeRef(router, r); }
        set<unsigned> termShapes; for (auto s : shapes) termShapes.insert(s->id());
        JunctionRef *j = nullptr; vector<ConnRef *> starConns;
        if (c.reg != 2) { j = new JunctionRef(router, Point(jpos.first * 20 + 10, jpos.second * 20 + 10)); size_t qi = 0; for (auto s : shapes) { ConnRef *cn = new ConnRef(router); if (c.mixed && (qi++ % 2)) { cn->setSourceEndpoint(ConnEnd(j)); cn->setDestEndpoint(ConnEnd(s, 1)); } else if (c.chain && s == shapes.back() && shapes.size() >= 3) { Point sp = s->position(); JunctionRef *j2c = new JunctionRef(router, Point((sp.x + jpos.first * 20 + 10) / 2 + 1, (sp.y + jpos.second * 20 + 10) / 2 + 1)); cn->setSourceEndpoint(ConnEnd(s, 1)); cn->setDestEndpoint(ConnEnd(j2c)); ConnRef *c2 = new ConnRef(router); c2->setSourceEndpoint(ConnEnd(j2c)); c2->setDestEndpoint(ConnEnd(j)); } else { cn->setSourceEndpoint(ConnEnd(s, 1)); cn->setDestEndpoint(ConnEnd(j)); } starConns.push_back(cn); } }
        router->processTransaction(); nTrans++;
        if (c.reg == 1) { router->hyperedgeRerouter()->registerHyperedgeForRerouting(j); router->processTransaction(); nTrans++; }
        if (c.reg == 2) { ConnEndList terms; for (auto s : shapes) terms.push_back(ConnEnd(s, 1)); router->hyperedgeRerouter()->registerHyperedgeForRerouting(terms); router->processTransaction(); nTrans++; }
        // consistency of the reported lists with the live objects
        auto checkLists = [&]() { HyperedgeNewAndDeletedObjectLists l = router->hyperedgeRerouter()->newAndDeletedObjectLists(0);
            set<ConnRef *> live(router->connRefs.begin(), router->connRefs.end()); set<Obstacle *> liveObs(router->m_obstacles.begin(), router->m_obstacles.end());
            HyperedgeNewAndDeletedObjectLists im = router->newAndDeletedObjectListsFromHyperedgeImprovement();   // improvement runs after rerouting in the same transaction and may delete again what rerouting created
            set<ConnRef *> imDelC(im.deletedConnectorList.begin(), im.deletedConnectorList.end()); set<JunctionRef *> imDelJ(im.deletedJunctionList.begin(), im.deletedJunctionList.end());
            for (auto cn : l.newConnectorList) if (!live.count(cn) && !imDelC.count(cn)) why = "new connector not among live connectors";
            for (auto cn : l.deletedConnectorList) { if (live.count(cn)) why = "deleted connector still live"; for (auto n : l.newConnectorList) if (n == cn) why = "connector in both new and deleted lists"; }
            for (auto jn : l.newJunctionList) if (!liveObs.count(jn) && !imDelJ.count(jn)) why = "new junction not among live obstacles";
            for (auto jn : l.deletedJunctionList) for (auto n : l.newJunctionList) if (n == jn) why = "junction in both new and deleted lists";
            set<ConnRef *> uc(l.newConnectorList.begin(), l.newConnectorList.end()); set<JunctionRef *> uj(l.newJunctionList.begin(), l.newJunctionList.end());
            if (uc.size() != l.newConnectorList.size() || uj.size() != l.newJunctionList.size()) why = "object listed twice as new";
        };
        if (c.reg) checkLists();
        if (c.reg && c.second == 2) {   // a second full rerouting in the very next transaction
            if (c.reg == 1) { HyperedgeNewAndDeletedObjectLists l = router->hyperedgeRerouter()->newAndDeletedObjectLists(0); set<Obstacle *> liveObs(router->m_obstacles.begin(), router->m_obstacles.end());
                HyperedgeNewAndDeletedObjectLists im = router->newAndDeletedObjectListsFromHyperedgeImprovement(); set<JunctionRef *> gone(l.deletedJunctionList.begin(), l.deletedJunctionList.end()); gone.insert(im.deletedJunctionList.begin(), im.deletedJunctionList.end());
                JunctionRef *j2 = nullptr; for (auto o : router->m_obstacles) { JunctionRef *jj = dynamic_cast<JunctionRef *>(o); if (jj && !gone.count(jj) && !j2) j2 = jj; }
                if (j2) { router->hyperedgeRerouter()->registerHyperedgeForRerouting(j2); router->processTransaction(); nTrans++; if (why.empty()) checkLists(); } }
            else { ConnEndList terms; for (auto s : shapes) terms.push_back(ConnEnd(s, 1)); router->hyperedgeRerouter()->registerHyperedgeForRerouting(terms); router->processTransaction(); nTrans++; if (why.empty()) checkLists(); }
        }
        // class: the rerouted tree runs THROUGH a terminal (a junction, or a route point that is not one of its pins, lies inside a terminal shape)
        if (c.reg) { auto inBox = [&](Point p, ShapeRef *sh) { Box b = sh->polygon().offsetBoundingBox(0); return p.x > b.min.x - 1e-9 && p.x < b.max.x + 1e-9 && p.y > b.min.y - 1e-9 && p.y < b.max.y + 1e-9; };
            for (auto o : router->m_obstacles) { JunctionRef *jj = dynamic_cast<JunctionRef *>(o); if (jj) for (auto sh : shapes) if (inBox(jj->position(), sh)) throughTerminal = true; }
            for (auto cn : router->connRefs) { const PolyLine &r = cn->displayRoute(); for (size_t q = 0; q < r.size(); q++) for (auto sh : shapes) if (inBox(r.ps[q], sh)) { bool isPin = false; for (auto pi : sh->m_connection_pins) { Point pp = pi->position(); if (fabs(pp.x - r.ps[q].x) < 1e-6 && fabs(pp.y - r.ps[q].y) < 1e-6) isPin = true; } if (!isPin) throughTerminal = true; } } }
        if (c.second == 1) {   // move the first terminal one cell, to the first free neighbouring cell (never onto another terminal)
            static const int D[4][2] = {{1, 0}, {0, 1}, {-1, 0}, {0, -1}}; int dx = 0, dy = 0;
            for (auto &d : D) { bool occ = false; for (auto &p : shapePos) if (p.first == shapePos[0].first + d[0] && p.second == shapePos[0].second + d[1]) occ = true; if (!occ) { dx = d[0] * 20; dy = d[1] * 20; break; } }
            router->moveShape(shapes[0], dx, dy); router->processTransaction(); nTrans++; }
        if (c.second == 3 && j && c.reg == 0 && c.opt == 0) {   // (without rerouting/improvement the star's own junction and connectors are still the live ones)
            for (size_t q = 2; q < starConns.size(); q++) router->deleteConnector(starConns[q]);
            router->processTransaction(); nTrans++;
            ConnRef *merged = j->removeJunctionAndMergeConnectors(); router->processTransaction(); nTrans++;
            if (!merged) why = "removeJunctionAndMergeConnectors refused a junction with exactly two connectors";
            termShapes.clear(); termShapes.insert(shapes[0]->id()); termShapes.insert(shapes[1]->id()); }
        nStates++;
        // ---- the hyperedge must be a tree over the same terminals
        map<void *, vector<void *>> adj; set<unsigned> leafShapes; int nconn = 0; set<void *> juncs;
        // objects the last transaction reported as deleted stay in the router's lists until it frees them "at its convenience": they are not part of the hyperedge
        set<JunctionRef *> deletedJ; set<ConnRef *> deletedC;
        if (c.reg && c.second != 1) { HyperedgeNewAndDeletedObjectLists l = router->hyperedgeRerouter()->newAndDeletedObjectLists(0); deletedJ.insert(l.deletedJunctionList.begin(), l.deletedJunctionList.end()); deletedC.insert(l.deletedConnectorList.begin(), l.deletedConnectorList.end()); }
        { HyperedgeNewAndDeletedObjectLists l = router->newAndDeletedObjectListsFromHyperedgeImprovement(); deletedJ.insert(l.deletedJunctionList.begin(), l.deletedJunctionList.end()); deletedC.insert(l.deletedConnectorList.begin(), l.deletedConnectorList.end());
            set<ConnRef *> live(router->connRefs.begin(), router->connRefs.end()); set<Obstacle *> liveObs(router->m_obstacles.begin(), router->m_obstacles.end());
            for (auto cn : l.newConnectorList) if (!live.count(cn) && !deletedC.count(cn) && why.empty()) why = "new connector not among live connectors";
            for (auto jn : l.newJunctionList) if (!liveObs.count(jn) && !deletedJ.count(jn) && why.empty()) why = "new junction not among live obstacles";
            for (auto cn : l.changedConnectorList) if ((!live.count(cn) || deletedC.count(cn)) && why.empty()) why = "changed connector not live"; }
        for (auto o : router->m_obstacles) { JunctionRef *jj = dynamic_cast<JunctionRef *>(o); if (jj && !deletedJ.count(jj)) juncs.insert(jj); }
        for (auto cn : router->connRefs) {
            if (deletedC.count(cn)) continue;
            nconn++; pair<ConnEnd, ConnEnd> e = cn->endpointConnEnds(); void *a = nullptr, *b = nullptr;
            if (e.first.junction()) a = e.first.junction(); else if (e.first.shape()) { a = e.first.shape(); leafShapes.insert(e.first.shape()->id()); } else if (why.empty()) why = "connector with an unattached end";
            if (e.second.junction()) b = e.second.junction(); else if (e.second.shape()) { b = e.second.shape(); leafShapes.insert(e.second.shape()->id()); } else if (why.empty()) why = "connector with an unattached end";
            if (a && b) { adj[a].push_back(b); adj[b].push_back(a); }
            const PolyLine &r = cn->displayRoute();
            auto near = [&](Point p, ConnEnd &ce) {
                if (ce.shape()) { for (auto pi : ce.shape()->m_connection_pins) { Point pp = pi->position(); if (fabs(p.x - pp.x) < 1e-6 && fabs(p.y - pp.y) < 1e-6) return true; } return false; }
                if (ce.junction()) { Point q = ce.junction()->position(), rp = ce.junction()->recommendedPosition(); return (fabs(p.x - q.x) < 1e-6 && fabs(p.y - q.y) < 1e-6) || (fabs(p.x - rp.x) < 1e-6 && fabs(p.y - rp.y) < 1e-6); }
                return false; };
            if (r.size() < 2) { bool coincide = false; if (r.size() == 1 && near(r.ps[0], e.first) && near(r.ps[0], e.second)) coincide = true; if (!coincide && why.empty()) { why = "route with fewer than two points"; obs = mcx::fmt("conn %u has %zu points", cn->id(), r.size()); } }
            else if ((!near(r.ps[0], e.first) || !near(r.ps[r.size() - 1], e.second)) && why.empty()) { why = "route does not run between its attachment positions"; obs = mcx::fmt("conn %u (%g,%g)..(%g,%g)", cn->id(), r.ps[0].x, r.ps[0].y, r.ps[r.size() - 1].x, r.ps[r.size() - 1].y); }
        }
        if (why.empty()) {
            if (leafShapes != termShapes) { why = "terminal set changed"; obs = mcx::fmt("%zu of %zu terminals attached", leafShapes.size(), termShapes.size());
                // class: a pin of the dropped terminal lies on the route of a surviving connector (the tree runs through that terminal)
                for (auto sh : shapes) if (!leafShapes.count(sh->id())) for (auto pi : sh->m_connection_pins) { Point pp = pi->position();
                    for (auto cn : router->connRefs) { const PolyLine &r = cn->displayRoute(); for (size_t q = 1; q < r.size(); q++) { double ax = r.ps[q - 1].x, ay = r.ps[q - 1].y, bx = r.ps[q].x, by = r.ps[q].y;
                        if (fabs((bx - ax) * (pp.y - ay) - (pp.x - ax) * (by - ay)) < 1e-6 && pp.x >= min(ax, bx) - 1e-6 && pp.x <= max(ax, bx) + 1e-6 && pp.y >= min(ay, by) - 1e-6 && pp.y <= max(ay, by) + 1e-6) pinOnPath = true; } } } }
            size_t V = adj.size();
            if (why.empty() && nconn != (int)V - 1) { why = "not a tree"; obs = mcx::fmt("E=%d V=%zu", nconn, V); }
            if (why.empty() && V) { set<void *> seen; vector<void *> st{adj.begin()->first}; while (!st.empty()) { void *u = st.back(); st.pop_back(); if (!seen.insert(u).second) continue; for (void *w : adj[u]) st.push_back(w); } if (seen.size() != V) { why = "hyperedge disconnected"; obs = mcx::fmt("component of %zu among %zu objects", seen.size(), V); } }
            if (why.empty()) for (void *jj : juncs) if (!adj.count(jj)) why = "orphan junction";
            if (why.empty()) for (auto &kv : adj) if (juncs.count(kv.first) && kv.second.size() < 2) why = "junction is a leaf";
        }
        rConn = nconn; rJunc = juncs.size();
        delete router;
    } catch (vpsc::CriticalFailure &f) { aborted = true; snprintf(abortWhat, sizeof abortWhat, "%s", f.what().c_str()); why.clear(); }
    snprintf(whyBuf, sizeof whyBuf, "%s", why.c_str()); snprintf(obsBuf, sizeof obsBuf, "%s", obs.c_str());
    }
    if (c.heap) mcx::heap_end();
    ctx.count("transitions", nTrans); ctx.count("states", nStates);
    if (aborted) ctx.library_abort(abortWhat, desc);
    if (rConn >= 0) { ctx.cls("connectors_in_result", mcx::fmt("%d", rConn)); ctx.cls("junctions_in_result", mcx::fmt("%zu", rJunc)); }
    if (pinOnPath) kc.push_back("dropped_terminal_pin_on_tree_path");
    if (throughTerminal) kc.push_back("rerouted_tree_runs_through_terminal");
    if (c.reg == 2) kc.push_back("registered_by_terminal_list");
    if (whyBuf[0]) ctx.violation(whyBuf, kc, desc, obsBuf);
}
static void phase(int k, int G, const vector<Cfg> &cfgs, const char *label) {
    vector<pair<int, int>> cells; for (int x = 0; x <= G; x++) for (int y = 0; y <= G; y++) cells.push_back({x, y});
    ctx.phase(mcx::fmt("k=%d terminals on the %dx%d cell grid x every junction cell x %zu configurations (%s)", k, G + 1, G + 1, cfgs.size(), label));
    vector<int> idx(k); for (int i = 0; i < k; i++) idx[i] = i;
    do {
        vector<pair<int, int>> sp; for (int i : idx) sp.push_back(cells[i]);
        for (int jx = 0; jx < G; jx++) for (int jy = 0; jy < G; jy++) for (auto &c : cfgs) {
            if (c.reg == 2 && (jx || jy)) continue;   // no junction in that mode
            if (!ctx.next()) continue; if (c.reg || c.opt == 2) ctx.count("nontrivial");
            string s = "terminals:"; for (auto &p : sp) s += mcx::fmt("(%d,%d)", p.first, p.second); ctx.sample(s + " " + cfg_str(c), 1);
            run(sp, {jx, jy}, c); ctx.done_case(); }
    } while (mcx::subset_next(idx, cells.size()) && !ctx.stopped());
}
int main(int argc, char **argv) {
    ctx.init(argc, argv);
    bool T = ctx.thorough();
    // one execution in system-malloc mode first, so that lazily built library statics never live in the arena
    run({{0, 0}, {2, 0}, {1, 2}}, {1, 1}, {2, 1, 1, 0, 0});
    vector<Cfg> base; for (int opt = 0; opt < 3; opt++) for (int reg = 0; reg < 3; reg++) for (int sec = 0; sec < 3; sec++) for (int heap = 1; heap <= 2; heap++) { if (sec == 2 && reg == 0) continue; base.push_back({opt, reg, sec, 0, heap}); }
    vector<Cfg> small; for (int reg = 0; reg < 3; reg++) for (int heap = 1; heap <= 2; heap++) small.push_back({2, reg, 1, 0, heap});
    phase(3, 2, base, "all options, 3x3 grid"); phase(3, 3, small, "improve all, second transaction"); phase(4, 2, base, "all options, 3x3 grid");
    { vector<Cfg> mg; for (int mixed = 0; mixed < 2; mixed++) for (int heap = 1; heap <= 2; heap++) { Cfg c{0, 0, 3, 0, heap}; c.mixed = mixed; mg.push_back(c); Cfg d{0, 0, 1, 0, heap}; d.mixed = 1; mg.push_back(d); Cfg e{2, 1, 0, 0, heap}; e.mixed = 1; mg.push_back(e); }
      phase(3, 2, mg, "mixed connector orientation; delete all but two connectors, then removeJunctionAndMergeConnectors"); phase(4, 2, mg, "mixed connector orientation; delete all but two connectors, then removeJunctionAndMergeConnectors"); }
#if !defined(__SANITIZE_ADDRESS__)   /* the sanitised replay (C15) of this phase is not triaged yet: see DESIGN.md, ninth round */
    { vector<Cfg> ch; for (int opt = 0; opt <= 2; opt += 2) for (int heap = 1; heap <= 2; heap++) { Cfg c{opt, 1, 0, 0, heap}; c.chain = 1; ch.push_back(c); }
      phase(3, 2, ch, "a two-connector junction on one arm of a hyperedge registered by junction"); phase(4, 2, ch, "a two-connector junction on one arm of a hyperedge registered by junction"); }
#endif
    if (T) { phase(3, 3, base, "all options"); vector<Cfg> ob; for (auto c : base) { c.obstacle = 1; if (c.opt != 1) ob.push_back(c); } phase(3, 2, ob, "with obstacle"); phase(4, 2, ob, "with obstacle"); phase(4, 3, base, "all options"); phase(5, 2, base, "all options, 3x3 grid"); phase(6, 2, base, "all options, 3x3 grid"); phase(5, 3, small, "improve all, second transaction, 4x4 grid"); }
    return ctx.finish();
}
