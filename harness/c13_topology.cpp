// C13: libtopology -- every sequence of single-axis "drag node to target" steps (run exactly like
// ColaTopologyAddon::moveTo) on small scenes; after every step no edge passes through a node, nodes do not overlap,
// bends sit on node corners and wrap round them, path ends are unchanged, and no node has jumped across an edge.
#include <libvpsc/rectangle.h>
#include <libvpsc/variable.h>
#include <libvpsc/constraint.h>
#include <libtopology/topology_constraints.h>
#include <libtopology/topology_graph.h>
#include <libcola/cola.h>
#include <libtopology/cola_topology_addon.h>
#include <cmath>
#include <array>
#include <vector>
#include "mcx/mcx.h"
using namespace std; using namespace topology;
static mcx::Ctx ctx;
struct Op { int dim, node; double target; int node2 = -1; double target2 = 0; };   // node2 >= 0: two nodes dragged in the same step
typedef array<double, 2> XY;
struct EdgeSpec { int a, b; int viaNode, viaCorner; };   // viaNode<0: straight; else bent round that node's corner
struct Scene { vector<XY> pos; vector<EdgeSpec> edges; vector<XY> half; vector<double> rzbox; };   // half: per-node half sizes (default HW x HW); rzbox: explicit resize target {x, y, w, h}
static const double HW = 5;
static bool segHitsRect(double ax, double ay, double bx, double by, double cx, double cy, double hw, double eps) {
    double x0 = cx - hw + eps, x1 = cx + hw - eps, y0 = cy - hw + eps, y1 = cy + hw - eps; if (x0 >= x1 || y0 >= y1) return false;
    double t0 = 0, t1 = 1, dx = bx - ax, dy = by - ay; double p[4] = {-dx, dx, -dy, dy}, q[4] = {ax - x0, x1 - ax, ay - y0, y1 - ay};
    for (int i = 0; i < 4; i++) { if (p[i] == 0) { if (q[i] <= 0) return false; } else { double t = q[i] / p[i]; if (p[i] < 0) { if (t > t1) return false; if (t > t0) t0 = t; } else { if (t < t0) return false; if (t < t1) t1 = t; } } }
    return t0 < t1;
}
static XY corner(const XY &c, int k) { // EdgePoint::RectIntersect order TR, BR, BL, TL ("top" = max y)
    switch (k) { case 0: return {c[0] + HW, c[1] + HW}; case 1: return {c[0] + HW, c[1] - HW}; case 2: return {c[0] - HW, c[1] - HW}; default: return {c[0] - HW, c[1] + HW}; } }
static double crs(double ax, double ay, double bx, double by, double cx, double cy) { return (bx - ax) * (cy - ay) - (cx - ax) * (by - ay); }
static string scene_str(const Scene &s) { string r = "nodes:"; for (auto &p : s.pos) r += mcx::fmt(" (%g,%g)", p[0], p[1]); r += " edges:"; for (auto &e : s.edges) r += e.viaNode < 0 ? mcx::fmt(" %d-%d", e.a, e.b) : mcx::fmt(" %d-[node%d corner%d]-%d", e.a, e.viaNode, e.viaCorner, e.b); return r; }
static string ops_str(const vector<Op> &ops, size_t upto) { string r; for (size_t k = 0; k <= upto && k < ops.size(); k++) r += ops[k].node2 < 0 ? mcx::fmt(" [%s node%d ->%g]", ops[k].dim ? "Y" : "X", ops[k].node, ops[k].target) : mcx::fmt(" [%s node%d ->%g & node%d ->%g]", ops[k].dim ? "Y" : "X", ops[k].node, ops[k].target, ops[k].node2, ops[k].target2); return r; }
// swept angle of (path - centre of node v)
static double swept(const vector<XY> &path, double cx, double cy) {
    double s = 0; for (size_t i = 0; i + 1 < path.size(); i++) { double ax = path[i][0] - cx, ay = path[i][1] - cy, bx = path[i + 1][0] - cx, by = path[i + 1][1] - cy; s += atan2(ax * by - ay * bx, ax * bx + ay * by); } return s;
}

static void run_case(const Scene &sc, const vector<Op> &ops) {
    Nodes nodes; size_t N = sc.pos.size();
    for (size_t i = 0; i < N; i++) { vpsc::Rectangle *r = new vpsc::Rectangle(sc.pos[i][0] - HW, sc.pos[i][0] + HW, sc.pos[i][1] - HW, sc.pos[i][1] + HW); nodes.push_back(new Node(i, r, new vpsc::Variable(i))); }
    Edges es;
    for (size_t k = 0; k < sc.edges.size(); k++) { const EdgeSpec &e = sc.edges[k]; EdgePoints ps; ps.push_back(new EdgePoint(nodes[e.a], EdgePoint::CENTRE)); if (e.viaNode >= 0) ps.push_back(new EdgePoint(nodes[e.viaNode], (EdgePoint::RectIntersect)e.viaCorner)); ps.push_back(new EdgePoint(nodes[e.b], EdgePoint::CENTRE)); es.push_back(new Edge(k, 30, ps)); }
    string base = scene_str(sc) + " ops:"; bool bendSeen = false;
    auto paths = [&]() { vector<vector<XY>> out; for (auto e : es) { ConstEdgePoints path; e->getPath(path); vector<XY> p; for (auto q : path) p.push_back({q->posX(), q->posY()}); out.push_back(p); } return out; };
    try {
        for (size_t k = 0; k < ops.size(); k++) {
            const Op &op = ops[k]; vpsc::Dim dim = (vpsc::Dim)op.dim; string desc = base + ops_str(ops, k);
            vector<vector<XY>> before = paths(); vector<XY> cb; for (auto n : nodes) cb.push_back({n->rect->getCentreX(), n->rect->getCentreY()});
            vpsc::Variables vs; for (auto n : nodes) vs.push_back(n->var); vpsc::Constraints cs;
            for (auto n : nodes) { n->var->desiredPosition = n->rect->getCentreD(dim); n->var->weight = 1; }
            nodes[op.node]->var->desiredPosition = op.target; nodes[op.node]->var->weight = 10000;
            if (op.node2 >= 0) { nodes[op.node2]->var->desiredPosition = op.target2; nodes[op.node2]->var->weight = 10000; }
            bool loop = false, asserted = false;
            // The oracle is evaluated after EVERY internal solve() call of the step ("during and after layout"), and the side
            // invariant between consecutive internal states: within one solve() all nodes move linearly and at most one
            // bend is created or removed, so the swept angle of a path round a node changes continuously -- a node that
            // is pulled through an edge flips it by about 2*pi.
            auto judge = [&]() {
            ctx.count("states");
            for (size_t i = 0; i < N; i++) for (size_t j = i + 1; j < N; j++) {
                double ox = min(nodes[i]->rect->getMaxX(), nodes[j]->rect->getMaxX()) - max(nodes[i]->rect->getMinX(), nodes[j]->rect->getMinX()), oy = min(nodes[i]->rect->getMaxY(), nodes[j]->rect->getMaxY()) - max(nodes[i]->rect->getMinY(), nodes[j]->rect->getMinY());
                if (ox > 1e-6 && oy > 1e-6) ctx.violation("node_overlap", {}, desc, mcx::fmt("nodes %zu,%zu overlap %gx%g", i, j, ox, oy)); }
            for (auto n : nodes) if (fabs(n->rect->width() - 2 * HW) > 1e-9 || fabs(n->rect->height() - 2 * HW) > 1e-9) ctx.violation("node_resized", {}, desc);
            for (size_t ei = 0; ei < es.size(); ei++) {
                ConstEdgePoints path; es[ei]->getPath(path);
                if ((int)path.front()->node->id != sc.edges[ei].a || (int)path.back()->node->id != sc.edges[ei].b || path.front()->rectIntersect != EdgePoint::CENTRE || path.back()->rectIntersect != EdgePoint::CENTRE) ctx.violation("path_ends_changed", {}, desc);
                string pstr; for (auto q : path) pstr += mcx::fmt(" n%d/%d(%g,%g)", q->node->id, (int)q->rectIntersect, q->posX(), q->posY());
                for (size_t s = 0; s + 1 < path.size(); s++) {
                    double ax = path[s]->posX(), ay = path[s]->posY(), bx = path[s + 1]->posX(), by = path[s + 1]->posY();
                    for (size_t v = 0; v < N; v++) { if (nodes[v]->id == path[s]->node->id || nodes[v]->id == path[s + 1]->node->id) continue; if ((int)v == sc.edges[ei].a || (int)v == sc.edges[ei].b) continue;
                        if (segHitsRect(ax, ay, bx, by, nodes[v]->rect->getCentreX(), nodes[v]->rect->getCentreY(), HW, 1e-6)) ctx.violation("segment_through_node", {}, desc, mcx::fmt("edge %zu passes through node %zu:", ei, v) + pstr); }
                }
                for (size_t s = 1; s + 1 < path.size(); s++) {
                    bendSeen = true;
                    if (path[s]->rectIntersect == EdgePoint::CENTRE) { ctx.violation("bend_not_on_corner", {}, desc, pstr); continue; }
                    const vpsc::Rectangle *r = path[s]->node->rect; double px = path[s]->posX(), py = path[s]->posY();
                    bool onCorner = (fabs(px - r->getMinX()) < 1e-9 || fabs(px - r->getMaxX()) < 1e-9) && (fabs(py - r->getMinY()) < 1e-9 || fabs(py - r->getMaxY()) < 1e-9);
                    if (!onCorner) ctx.violation("bend_not_on_corner", {}, desc, pstr);
                    double t = crs(path[s - 1]->posX(), path[s - 1]->posY(), px, py, path[s + 1]->posX(), path[s + 1]->posY());
                    double c1 = crs(path[s - 1]->posX(), path[s - 1]->posY(), px, py, r->getCentreX(), r->getCentreY()), c2 = crs(px, py, path[s + 1]->posX(), path[s + 1]->posY(), r->getCentreX(), r->getCentreY());
                    double la = hypot(px - path[s - 1]->posX(), py - path[s - 1]->posY()), lb2 = hypot(path[s + 1]->posX() - px, path[s + 1]->posY() - py), tol = 1e-7 * max(1.0, la * lb2);
                    if (fabs(t) > tol) { if (!((t > 0 && c1 > -tol && c2 > -tol) || (t < 0 && c1 < tol && c2 < tol))) {
                        // known-finding class: the corner the path bends at is aligned with a side of ANOTHER node (a tie between scan positions)
                        vector<string> kc; for (size_t v = 0; v < N; v++) if (nodes[v] != path[s]->node) { const vpsc::Rectangle *o = nodes[v]->rect; if (fabs(px - o->getMinX()) < 1e-9 || fabs(px - o->getMaxX()) < 1e-9 || fabs(py - o->getMinY()) < 1e-9 || fabs(py - o->getMaxY()) < 1e-9) { kc.push_back("bend_corner_aligned_with_side_of_another_node"); break; } }
                        ctx.violation("bend_turns_away_from_node", kc, desc, pstr + mcx::fmt(" turn=%g side=%g/%g", t, c1, c2)); } }
                    else ctx.count("straight_bends");
                    // the segment into / out of the bend must not cut the bend's own node either
                    if (segHitsRect(path[s - 1]->posX(), path[s - 1]->posY(), px, py, r->getCentreX(), r->getCentreY(), HW, 1e-6) || segHitsRect(px, py, path[s + 1]->posX(), path[s + 1]->posY(), r->getCentreX(), r->getCentreY(), HW, 1e-6)) ctx.violation("segment_through_node", {}, desc, "through the node it bends round:" + pstr);
                }
            }
            // side invariant: a node that is not an end of the edge must not jump across it in one step (swept angle flips by ~2pi)
            vector<vector<XY>> after = paths();
            for (size_t ei = 0; ei < es.size(); ei++) for (size_t v = 0; v < N; v++) { if ((int)v == sc.edges[ei].a || (int)v == sc.edges[ei].b) continue;
                double s0 = swept(before[ei], cb[v][0], cb[v][1]), s1 = swept(after[ei], nodes[v]->rect->getCentreX(), nodes[v]->rect->getCentreY());
                if (fabs(s1 - s0) > 1.5 * M_PI) ctx.violation("node_jumped_across_edge", {}, desc, mcx::fmt("edge %zu node %zu swept angle %g -> %g", ei, v, s0, s1)); }
            before = after; for (size_t v = 0; v < N; v++) cb[v] = {nodes[v]->rect->getCentreX(), nodes[v]->rect->getCentreY()};
            };
            // an internal assertion (several of them ARE the property) must not hide the state it left behind:
            // catch it, judge the state with the harness's own oracle, then stop this history
            try { TopologyConstraints t(dim, nodes, es, nullptr, vs, cs); int lb = 100; bool in; do { in = t.solve(); lb--; judge(); } while (in && lb > 0); if (lb == 0) loop = true; }
            catch (vpsc::CriticalFailure &f) { asserted = true; ctx.library_abort(f.what(), desc); judge(); }
            for (auto c : cs) delete c;
            ctx.count("transitions");
            if (loop) ctx.count("loop_breaker_hit");
            if (asserted) break;
        }
    } catch (vpsc::CriticalFailure &f) { ctx.library_abort(f.what(), base + ops_str(ops, ops.size())); }
    catch (...) { ctx.count("aborted_by_exception"); }
    if (bendSeen) ctx.count("nontrivial");
    for (auto e : es) delete e; for (auto n : nodes) { delete n->rect; delete n->var; delete n; }
}

static vector<Scene> scenes3(bool bent) {
    double g[4] = {0, 20, 40, 60}; vector<Scene> out;
    for (int a = 0; a < 16; a++) for (int b = a + 1; b < 16; b++) for (int c = 0; c < 16; c++) { if (a == c || b == c) continue;
        Scene s; s.pos = {{g[a % 4], g[a / 4]}, {g[b % 4], g[b / 4]}, {g[c % 4], g[c / 4]}};
        bool hit = segHitsRect(s.pos[0][0], s.pos[0][1], s.pos[1][0], s.pos[1][1], s.pos[2][0], s.pos[2][1], HW, 0);
        if (!bent) { if (hit) continue; s.edges = {{0, 1, -1, 0}}; out.push_back(s); }
        else { if (!hit) continue; // route tightly round one corner of node 2
            for (int k = 0; k < 4; k++) { XY q = corner(s.pos[2], k); if (segHitsRect(s.pos[0][0], s.pos[0][1], q[0], q[1], s.pos[2][0], s.pos[2][1], HW, 1e-9) || segHitsRect(q[0], q[1], s.pos[1][0], s.pos[1][1], s.pos[2][0], s.pos[2][1], HW, 1e-9)) continue;
                double t = crs(s.pos[0][0], s.pos[0][1], q[0], q[1], s.pos[1][0], s.pos[1][1]), c1 = crs(s.pos[0][0], s.pos[0][1], q[0], q[1], s.pos[2][0], s.pos[2][1]);
                if (fabs(t) < 1e-9 || (t > 0) != (c1 > 0)) continue;
                Scene s2 = s; s2.edges = {{0, 1, 2, k}}; out.push_back(s2); } }
    }
    return out;
}
static vector<Scene> scenes4() {
    double g[3] = {0, 20, 40}; vector<Scene> out;
    for (int a = 0; a < 9; a++) for (int b = a + 1; b < 9; b++) for (int c = 0; c < 9; c++) for (int d = c + 1; d < 9; d++) { if (a == c || a == d || b == c || b == d) continue;
        Scene s; s.pos = {{g[a % 3], g[a / 3]}, {g[b % 3], g[b / 3]}, {g[c % 3], g[c / 3]}, {g[d % 3], g[d / 3]}}; bool ok = true;
        for (int v : {2, 3}) if (segHitsRect(s.pos[0][0], s.pos[0][1], s.pos[1][0], s.pos[1][1], s.pos[v][0], s.pos[v][1], HW, 0)) ok = false;
        for (int v : {0, 1}) if (segHitsRect(s.pos[2][0], s.pos[2][1], s.pos[3][0], s.pos[3][1], s.pos[v][0], s.pos[v][1], HW, 0)) ok = false;
        if (!ok) continue; s.edges = {{0, 1, -1, 0}, {2, 3, -1, 0}}; out.push_back(s); }
    return out;
}
// 4 nodes: the edge 0-1 bent tightly round a corner of node 2 (as in scenes3(true)), node 3 on any other free cell that the path
// does not touch.  Used with simultaneous drags of nodes 2 and 3: the bend can straighten and be removed while node 3 runs into
// the merged segment and pushes it back onto node 2 within the same solve loop.
static vector<Scene> scenes4bent() {
    double g[4] = {0, 20, 40, 60}; vector<Scene> out;
    for (auto &s3 : scenes3(true)) for (int d = 0; d < 16; d++) {
        XY q{g[d % 4], g[d / 4]}; bool ok = true; for (auto &p : s3.pos) if (p == q) ok = false; if (!ok) continue;
        XY c = corner(s3.pos[2], s3.edges[0].viaCorner);
        if (segHitsRect(s3.pos[0][0], s3.pos[0][1], c[0], c[1], q[0], q[1], HW, 0) || segHitsRect(c[0], c[1], s3.pos[1][0], s3.pos[1][1], q[0], q[1], HW, 0)) continue;
        Scene s = s3; s.pos.push_back(q); out.push_back(s); }
    return out;
}
static vector<Scene> scenes4abut(int W, int H) {
    double sp = 2 * HW; vector<Scene> out; int C = W * H;
    for (int a = 0; a < C; a++) for (int b = a + 1; b < C; b++) for (int c = 0; c < C; c++) for (int d = c + 1; d < C; d++) { if (a == c || a == d || b == c || b == d) continue;
        Scene s; auto cell = [&](int k) { return XY{sp * (k % W), sp * (k / W)}; }; s.pos = {cell(a), cell(b), cell(c), cell(d)}; bool ok = true;
        for (int v : {2, 3}) if (segHitsRect(s.pos[0][0], s.pos[0][1], s.pos[1][0], s.pos[1][1], s.pos[v][0], s.pos[v][1], HW, 1e-9)) ok = false;
        if (!ok) continue; s.edges = {{0, 1, -1, 0}}; out.push_back(s); }
    return out;
}
// operations that drag the two obstacle nodes 2 and 3 in one step (both with weight 10000), plus the single drags
static void explore_pairs(const char *name, const vector<Scene> &scs, const vector<double> &targets) {
    vector<Op> alphabet; for (int d = 0; d < 2; d++) for (double t1 : targets) for (double t2 : targets) { Op o; o.dim = d; o.node = 2; o.target = t1; o.node2 = 3; o.target2 = t2; alphabet.push_back(o); }
    ctx.phase(mcx::fmt("%s: %zu start scenes x %zu simultaneous two-node drags", name, scs.size(), alphabet.size()));
    for (auto &sc : scs) { for (auto &o : alphabet) { if (!ctx.next()) continue; vector<Op> ops = {o}; ctx.sample(scene_str(sc) + " ops:" + ops_str(ops, 1)); ctx.count("evaluations"); run_case(sc, ops); ctx.done_case(); } if (ctx.stopped()) break; }
}
static void explore(const char *name, const vector<Scene> &scs, int depth, const vector<double> &targets) {
    size_t N = scs.empty() ? 0 : scs[0].pos.size(); vector<Op> alphabet; for (int d = 0; d < 2; d++) for (size_t n = 0; n < N; n++) for (double t : targets) alphabet.push_back({d, (int)n, t});
    ctx.phase(mcx::fmt("%s: %zu start scenes x all op sequences of depth %d over %zu ops", name, scs.size(), depth, alphabet.size()));
    for (auto &sc : scs) {
        vector<int> idx(depth, 0);
        do { if (!ctx.next()) continue; vector<Op> ops; for (int k = 0; k < depth; k++) ops.push_back(alphabet[idx[k]]); ctx.sample(scene_str(sc) + " ops:" + ops_str(ops, depth)); ctx.count("evaluations"); run_case(sc, ops); ctx.done_case(); } while (mcx::odo_next(idx, (int)alphabet.size()) && !ctx.stopped());
        if (ctx.stopped()) break;
    }
}

// ---- full layout: ConstrainedFDLayout::run() with a ColaTopologyAddon (forces + constraints, x and y passes, many iterations) ------------
// state clauses only (overlap, sizes, path ends, segment through node, bends on corners turning round their node), judged after EVERY
// iteration through the TestConvergence callback and after run() returns
static bool segHitsRectWH(double ax, double ay, double bx, double by, const vpsc::Rectangle *r, double eps) {
    double x0 = r->getMinX() + eps, x1 = r->getMaxX() - eps, y0 = r->getMinY() + eps, y1 = r->getMaxY() - eps; if (x0 >= x1 || y0 >= y1) return false;
    double t0 = 0, t1 = 1, dx = bx - ax, dy = by - ay; double p[4] = {-dx, dx, -dy, dy}, q[4] = {ax - x0, x1 - ax, ay - y0, y1 - ay};
    for (int i = 0; i < 4; i++) { if (p[i] == 0) { if (q[i] <= 0) return false; } else { double t = q[i] / p[i]; if (p[i] < 0) { if (t > t1) return false; if (t > t0) t0 = t; } else { if (t < t0) return false; if (t < t1) t1 = t; } } }
    return t0 < t1;
}
static void judge_state(const Nodes &nodes, const Edges &es, const Scene &sc, const string &desc, const vector<XY> *wantSize = nullptr, bool checkSizes = true) {
    size_t N = nodes.size(); ctx.count("states");
    for (size_t i = 0; i < N; i++) for (size_t j = i + 1; j < N; j++) {
        double ox = min(nodes[i]->rect->getMaxX(), nodes[j]->rect->getMaxX()) - max(nodes[i]->rect->getMinX(), nodes[j]->rect->getMinX()), oy = min(nodes[i]->rect->getMaxY(), nodes[j]->rect->getMaxY()) - max(nodes[i]->rect->getMinY(), nodes[j]->rect->getMinY());
        if (ox > 1e-6 && oy > 1e-6) ctx.violation("node_overlap", {"layout"}, desc, mcx::fmt("nodes %zu,%zu overlap %gx%g", i, j, ox, oy)); }
    for (size_t i = 0; i < N && checkSizes; i++) { double ww = wantSize ? (*wantSize)[i][0] : 2 * HW, wh = wantSize ? (*wantSize)[i][1] : 2 * HW; double tolz = (wantSize && (fabs(ww - 2 * HW) > 1e-9 || fabs(wh - 2 * HW) > 1e-9)) ? 0.05 : 1e-9;   /* a resize target is approached iteratively: C13 has no size clause for it, only for the untouched nodes */
        if (fabs(nodes[i]->rect->width() - ww) > tolz || fabs(nodes[i]->rect->height() - wh) > tolz) ctx.violation("node_resized", {"layout"}, desc, mcx::fmt("node %zu is %gx%g, expected %gx%g", i, nodes[i]->rect->width(), nodes[i]->rect->height(), ww, wh)); }
    for (size_t ei = 0; ei < es.size(); ei++) {
        ConstEdgePoints path; es[ei]->getPath(path);
        if ((int)path.front()->node->id != sc.edges[ei].a || (int)path.back()->node->id != sc.edges[ei].b || path.front()->rectIntersect != EdgePoint::CENTRE || path.back()->rectIntersect != EdgePoint::CENTRE) ctx.violation("path_ends_changed", {"layout"}, desc);
        string pstr; for (auto q : path) pstr += mcx::fmt(" n%d/%d(%g,%g)", q->node->id, (int)q->rectIntersect, q->posX(), q->posY());
        for (size_t s = 0; s + 1 < path.size(); s++) {
            double ax = path[s]->posX(), ay = path[s]->posY(), bx = path[s + 1]->posX(), by = path[s + 1]->posY();
            for (size_t v = 0; v < N; v++) { if (nodes[v]->id == path[s]->node->id || nodes[v]->id == path[s + 1]->node->id) continue; if ((int)v == sc.edges[ei].a || (int)v == sc.edges[ei].b) continue;
                if (segHitsRectWH(ax, ay, bx, by, nodes[v]->rect, 1e-6)) ctx.violation("segment_through_node", {"layout"}, desc, mcx::fmt("edge %zu passes through node %zu:", ei, v) + pstr); }
        }
        for (size_t s = 1; s + 1 < path.size(); s++) {
            if (path[s]->rectIntersect == EdgePoint::CENTRE) { ctx.violation("bend_not_on_corner", {"layout"}, desc, pstr); continue; }
            const vpsc::Rectangle *r = path[s]->node->rect; double px = path[s]->posX(), py = path[s]->posY();
            bool onCorner = (fabs(px - r->getMinX()) < 1e-9 || fabs(px - r->getMaxX()) < 1e-9) && (fabs(py - r->getMinY()) < 1e-9 || fabs(py - r->getMaxY()) < 1e-9);
            if (!onCorner) ctx.violation("bend_not_on_corner", {"layout"}, desc, pstr);
            double t = crs(path[s - 1]->posX(), path[s - 1]->posY(), px, py, path[s + 1]->posX(), path[s + 1]->posY());
            double c1 = crs(path[s - 1]->posX(), path[s - 1]->posY(), px, py, r->getCentreX(), r->getCentreY()), c2 = crs(px, py, path[s + 1]->posX(), path[s + 1]->posY(), r->getCentreX(), r->getCentreY());
            double la = hypot(px - path[s - 1]->posX(), py - path[s - 1]->posY()), lb2 = hypot(path[s + 1]->posX() - px, path[s + 1]->posY() - py), tol = 1e-7 * max(1.0, la * lb2);
            if (fabs(t) > tol && !((t > 0 && c1 > -tol && c2 > -tol) || (t < 0 && c1 < tol && c2 < tol))) {
                vector<string> kc{"layout"}; for (size_t v = 0; v < N; v++) if (nodes[v] != path[s]->node) { const vpsc::Rectangle *o = nodes[v]->rect; if (fabs(px - o->getMinX()) < 1e-9 || fabs(px - o->getMaxX()) < 1e-9 || fabs(py - o->getMinY()) < 1e-9 || fabs(py - o->getMaxY()) < 1e-9) { kc.push_back("bend_corner_aligned_with_side_of_another_node"); break; } }
                ctx.violation("bend_turns_away_from_node", kc, desc, pstr + mcx::fmt(" turn=%g side=%g/%g", t, c1, c2)); }
            if (segHitsRectWH(path[s - 1]->posX(), path[s - 1]->posY(), px, py, r, 1e-6) || segHitsRectWH(px, py, path[s + 1]->posX(), path[s + 1]->posY(), r, 1e-6)) ctx.violation("segment_through_node", {"layout"}, desc, "through the node it bends round:" + pstr);
        }
    }
}
struct JudgeEachIteration : cola::TestConvergence {
    const Nodes &nodes; const Edges &es; const Scene &sc; const string &desc; int iters = 0; const vector<XY> *want = nullptr;
    JudgeEachIteration(const Nodes &n, const Edges &e, const Scene &s, const string &d) : cola::TestConvergence(1e-4, 40), nodes(n), es(e), sc(s), desc(d) {}
    bool operator()(const double new_stress, std::valarray<double> &X, std::valarray<double> &Y) { iters++; judge_state(nodes, es, sc, desc + mcx::fmt(" (after iteration %d)", iters), want); return cola::TestConvergence::operator()(new_stress, X, Y); }
};
// a resize request delivered through the PreIteration callback before the first iteration (node rz grows to 16x24 about its centre)
struct ResizeOnce : cola::PreIteration { cola::Resizes rz; cola::Resize req; int calls = 0; ResizeOnce(const cola::Resize &r) : cola::PreIteration(rz), req(r) {} bool operator()() { rz.clear(); if (calls++ == 0) rz.push_back(req); return true; } };
// judges the state RIGHT AFTER a resize has been applied (before the next iteration's moves can tidy anything up)
struct JudgingAddon : ColaTopologyAddon {
    const Scene *sc; const string *desc; const vector<XY> *want;
    JudgingAddon(Nodes &n, Edges &e, const Scene *s, const string *d, const vector<XY> *w) : ColaTopologyAddon(n, e), sc(s), desc(d), want(w) {}
    cola::TopologyAddonInterface *clone(void) const { return new JudgingAddon(*this); }
    void handleResizes(const cola::Resizes &rl, unsigned n, std::valarray<double> &X, std::valarray<double> &Y, cola::CompoundConstraints &ccs, vpsc::Rectangles &bbs, cola::RootCluster *ch) {
        ColaTopologyAddon::handleResizes(rl, n, X, Y, ccs, bbs, ch);
        if (!rl.empty()) judge_state(topologyNodes, topologyRoutes, *sc, *desc + " (right after the resize)", want);
    }
};
static const double RZW[3] = {16, 50, 14}, RZH[3] = {24, 14, 50};
static void layout_case(const Scene &sc, double idealLength, int extraEdges, int resizeNode = -1, int rzv = 0) {
    Nodes nodes; size_t N = sc.pos.size(); vpsc::Rectangles rs;
    auto hx = [&](size_t i) { return sc.half.empty() ? HW : sc.half[i][0]; }; auto hy = [&](size_t i) { return sc.half.empty() ? HW : sc.half[i][1]; };
    for (size_t i = 0; i < N; i++) { vpsc::Rectangle *r = new vpsc::Rectangle(sc.pos[i][0] - hx(i), sc.pos[i][0] + hx(i), sc.pos[i][1] - hy(i), sc.pos[i][1] + hy(i)); rs.push_back(r); nodes.push_back(new Node(i, r)); }
    Edges es; vector<cola::Edge> ces;
    for (size_t k = 0; k < sc.edges.size(); k++) { const EdgeSpec &e = sc.edges[k]; EdgePoints ps; ps.push_back(new EdgePoint(nodes[e.a], EdgePoint::CENTRE)); if (e.viaNode >= 0) ps.push_back(new EdgePoint(nodes[e.viaNode], (EdgePoint::RectIntersect)e.viaCorner)); ps.push_back(new EdgePoint(nodes[e.b], EdgePoint::CENTRE)); es.push_back(new Edge(k, idealLength, ps)); ces.push_back(cola::Edge(e.a, e.b)); }
    if (extraEdges >= 1 && N >= 3) ces.push_back(cola::Edge(0, 2)); if (extraEdges >= 2 && N >= 3) ces.push_back(cola::Edge(1, 2));
    string desc = scene_str(sc) + mcx::fmt(" ConstrainedFDLayout(idealLength=%g, %d extra graph edge(s)) + ColaTopologyAddon, run()", idealLength, extraEdges) + (resizeNode >= 0 ? mcx::fmt(" with node %d resized to %gx%g before the first iteration", resizeNode, RZW[rzv], RZH[rzv]) : string());
    vector<XY> want(N, XY{2 * HW, 2 * HW}); for (size_t i = 0; i < N; i++) want[i] = {2 * hx(i), 2 * hy(i)}; if (resizeNode >= 0) want[resizeNode] = {RZW[rzv], RZH[rzv]};
    if (resizeNode >= 0 && !sc.rzbox.empty()) { want[resizeNode] = {sc.rzbox[2], sc.rzbox[3]}; desc += mcx::fmt(" [target box x=%g y=%g %gx%g, node sizes differ]", sc.rzbox[0], sc.rzbox[1], sc.rzbox[2], sc.rzbox[3]); }
    ctx.announce(desc); ctx.count("transitions"); ctx.count("evaluations");
    try {
        JudgeEachIteration test(nodes, es, sc, desc); test.want = &want;
        ResizeOnce pre(resizeNode >= 0 && !sc.rzbox.empty() ? cola::Resize(resizeNode, sc.rzbox[0], sc.rzbox[1], sc.rzbox[2], sc.rzbox[3]) : resizeNode >= 0 ? cola::Resize(resizeNode, sc.pos[resizeNode][0] - RZW[rzv] / 2, sc.pos[resizeNode][1] - RZH[rzv] / 2, RZW[rzv], RZH[rzv]) : cola::Resize(0, 0, 0, 1, 1));
        cola::ConstrainedFDLayout alg(rs, ces, idealLength, cola::StandardEdgeLengths, &test, resizeNode >= 0 ? &pre : nullptr);
        alg.setAvoidNodeOverlaps(true);
        JudgingAddon addon(nodes, es, &sc, &desc, &want); alg.setTopology(&addon);
        alg.run(true, true);
        judge_state(nodes, es, sc, desc + " (after run)", &want); ctx.cls("layout_iterations", mcx::fmt("%d", test.iters));
    } catch (vpsc::CriticalFailure &f) { ctx.library_abort(f.what(), desc); judge_state(nodes, es, sc, desc + " (state left by the assertion)", nullptr, resizeNode < 0); }
    catch (...) { ctx.count("aborted_by_exception"); }
    bool bent = false; for (auto &e : sc.edges) if (e.viaNode >= 0) bent = true; if (bent) ctx.count("nontrivial");
    for (auto e : es) delete e; for (auto n : nodes) delete n;   /* node variables belong to the layout */ for (auto r : rs) delete r;
}
static void explore_resize(const char *name, const vector<Scene> &scs, double len) {
    ctx.phase(mcx::fmt("%s: %zu start scenes x every node resized (10x10 -> 16x24 / 50x14 / 14x50) through PreIteration, then ConstrainedFDLayout::run with topology addon", name, scs.size()));
    for (auto &sc : scs) for (size_t v = 0; v < sc.pos.size(); v++) for (int z = 0; z < 3; z++) { if (ctx.stopped()) return; if (!ctx.next()) continue; ctx.sample(scene_str(sc), 1); layout_case(sc, len, 0, (int)v, z); ctx.done_case(); }
}

// nodes of different sizes: a small node A, a tall node B and a big node N; the edge runs A -> a corner of B -> N (it ENDS in the node that is
// resized), and N is grown sideways across B and A (and the other way), so that its flank sweeps over the place where the edge enters it
static vector<Scene> scenes_hetero() {
    vector<Scene> out;
    struct Fam { XY hb, hn; vector<double> ax, ay, by, ny; double bx, nx; vector<vector<double>> boxes; };   // boxes: {dx0, dy0, w, h} relative to N's centre (mirrored with the scene)
    vector<Fam> fams = {
        {{10, 30}, {20, 20}, {0}, {0, 40, 80, 120}, {40, 60, 80}, {0, 40, 80, 120}, 40, 100, {{-170, -20, 190, 40}, {-120, -20, 240, 40}, {-20, -70, 40, 140}}},
        {{10, 30}, {50, 50}, {0, 20}, {0, 30, 60, 90, 120}, {60, 90, 120}, {60, 100, 140}, 70, 150, {{-120, -50, 340, 100}, {-170, -50, 220, 100}, {-50, -120, 100, 240}}},
    };
    for (auto &F : fams) for (double ax : F.ax) for (double ay : F.ay) for (double by : F.by) for (double ny : F.ny) for (int mirror = 0; mirror < 2; mirror++) for (int k = 0; k < 4; k++) {
        double sgn = mirror ? -1 : 1; Scene s; s.half = {{5, 5}, F.hb, F.hn}; s.pos = {{sgn * ax, ay}, {sgn * F.bx, by}, {sgn * F.nx, ny}};
        XY q{s.pos[1][0] + ((k == 0 || k == 1) ? F.hb[0] : -F.hb[0]), s.pos[1][1] + ((k == 0 || k == 3) ? F.hb[1] : -F.hb[1])};
        vpsc::Rectangle rb(s.pos[1][0] - F.hb[0], s.pos[1][0] + F.hb[0], s.pos[1][1] - F.hb[1], s.pos[1][1] + F.hb[1]), ra(s.pos[0][0] - 5, s.pos[0][0] + 5, s.pos[0][1] - 5, s.pos[0][1] + 5);
        double ox = min(ra.getMaxX(), rb.getMaxX()) - max(ra.getMinX(), rb.getMinX()), oy = min(ra.getMaxY(), rb.getMaxY()) - max(ra.getMinY(), rb.getMinY()); if (ox > 0 && oy > 0) continue;
        if (segHitsRectWH(s.pos[0][0], s.pos[0][1], q[0], q[1], &rb, 1e-9) || segHitsRectWH(q[0], q[1], s.pos[2][0], s.pos[2][1], &rb, 1e-9)) continue;
        double t = crs(s.pos[0][0], s.pos[0][1], q[0], q[1], s.pos[2][0], s.pos[2][1]), c1 = crs(s.pos[0][0], s.pos[0][1], q[0], q[1], s.pos[1][0], s.pos[1][1]);
        if (fabs(t) < 1e-9 || (t > 0) != (c1 > 0)) continue;
        s.edges = {{0, 2, 1, k}};
        for (auto &bx : F.boxes) { Scene s2 = s; double cx = s.pos[2][0], cy = s.pos[2][1], x0 = mirror ? cx - (bx[0] + bx[2]) : cx + bx[0]; s2.rzbox = {x0, cy + bx[1], bx[2], bx[3]}; out.push_back(s2); }
    }
    return out;
}
static void explore_resize_hetero() {
    vector<Scene> scs = scenes_hetero();
    ctx.phase(mcx::fmt("nodes of different sizes, edge A -> corner of B -> N ending in the resized node N: %zu scenes (positions x corner x mirror x 3 target boxes), ConstrainedFDLayout::run with topology addon", scs.size()));
    for (auto &sc : scs) { if (ctx.stopped()) return; if (!ctx.next()) continue; ctx.sample(scene_str(sc), 1); layout_case(sc, 60, 0, 2, 0); ctx.done_case(); }
}
static void explore_layout(const char *name, const vector<Scene> &scs, const vector<double> &lens) {
    ctx.phase(mcx::fmt("%s: %zu start scenes x ideal lengths x 0..2 extra graph edges, full ConstrainedFDLayout::run with topology addon", name, scs.size()));
    for (auto &sc : scs) for (double L : lens) for (int x = 0; x < 3; x++) { if (ctx.stopped()) return; if (!ctx.next()) continue; ctx.sample(scene_str(sc), 1); layout_case(sc, L, x); ctx.done_case(); }
}
int main(int argc, char **argv) {
    ctx.init(argc, argv);
    bool T = ctx.thorough();
    explore("3 nodes, straight edge", scenes3(false), 1, {0, 20, 40, 60});
    explore("3 nodes, straight edge", scenes3(false), 2, {0, 20, 40, 60});
    explore("3 nodes, edge bent round node 2", scenes3(true), 2, {0, 20, 40, 60});
    explore("4 nodes, two straight edges", scenes4(), T ? 2 : 1, {0, 20, 40});
    explore_pairs("4 abutting nodes (spacing = node size) on 4x3 cells, one edge", scenes4abut(4, 3), {0, 10, 20, 30});
    explore_pairs("4 nodes on a 4x4 grid, edge bent round node 2, node 3 free", scenes4bent(), {-20, 0, 20, 40, 60, 80});
    explore("4 abutting nodes on 3x3 cells, one edge", scenes4abut(3, 3), 1, {0, 10, 20});
    explore_layout("3 nodes, edge bent round node 2", scenes3(true), {15, 45}); explore_layout("3 nodes, straight edge", scenes3(false), {25});
    explore_layout("4 nodes, edge bent round node 2, node 3 free", scenes4bent(), {15, 45});
    explore_resize("3 nodes, edge bent round node 2", scenes3(true), 30); explore_resize("3 nodes, straight edge", scenes3(false), 30); explore_resize_hetero();
    if (T) { explore("4 nodes, edge bent round node 2, node 3 free", scenes4bent(), 2, {0, 20, 40, 60}); explore_layout("3 nodes, straight edge", scenes3(false), {10, 60}); explore_layout("4 nodes, two straight edges", scenes4(), {15, 45}); explore_pairs("4 abutting nodes on 4x4 cells, one edge", scenes4abut(4, 4), {0, 10, 20, 30}); explore("4 abutting nodes on 3x3 cells, one edge", scenes4abut(3, 3), 2, {0, 10, 20});
             explore("3 nodes, straight edge", scenes3(false), 3, {0, 20, 40, 60}); explore("3 nodes, edge bent round node 2", scenes3(true), 3, {0, 20, 40, 60}); }
    return ctx.finish();
}
