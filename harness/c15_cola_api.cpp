// C15 (engine 1b): libcola API surface that no other alphabet reaches, executed in the sanitised build.
//   (a) hull::convex on EVERY multiset of n grid points (given as a count per grid position, so heavy duplication is the norm),
//       in three input orders; the returned indices are also compared with an exact integer convex hull
//   (b) ConvexCluster::computeBoundary / RectangularCluster::computeBoundingRect on every multiset of rectangles from a small alphabet
//   (c) every history (to a depth bound) of configuration and layout calls on ONE ConstrainedFDLayout object, ending with its
//       destruction: set/replace constraints, set overlap avoidance with and without exemptions, set/replace the cluster hierarchy,
//       makeFeasible, run, freeAssociatedObjects
// Oracle: no ASan/UBSan report, no failed internal assertion, termination, live-allocation count back to its start value.
#include "libcola/cola.h"
#include "libcola/cluster.h"
#include "libcola/compound_constraints.h"
#include "libcola/convex_hull.h"
#include <algorithm>
#include <string>
#include <vector>
#include "mcx/mcx.h"
#include "mcx/arena.h"
using namespace std; using namespace cola;
static mcx::Ctx ctx;
typedef long long ll;
struct IP { ll x, y; bool operator<(const IP &o) const { return x < o.x || (x == o.x && y < o.y); } bool operator==(const IP &o) const { return x == o.x && y == o.y; } };
static ll crossp(IP a, IP b, IP c) { return (b.x - a.x) * (c.y - a.y) - (c.x - a.x) * (b.y - a.y); }
// exact strict convex hull (monotone chain), vertex set only
static vector<IP> ref_hull(vector<IP> p) {
    sort(p.begin(), p.end()); p.erase(unique(p.begin(), p.end()), p.end());
    if (p.size() < 3) return p;
    vector<IP> h(2 * p.size()); size_t k = 0;
    for (size_t i = 0; i < p.size(); i++) { while (k >= 2 && crossp(h[k - 2], h[k - 1], p[i]) <= 0) k--; h[k++] = p[i]; }
    for (size_t i = p.size() - 1, t = k + 1; i-- > 0;) { while (k >= t && crossp(h[k - 2], h[k - 1], p[i]) <= 0) k--; h[k++] = p[i]; }
    h.resize(k - 1); sort(h.begin(), h.end()); return h;
}
static void hull_case(const vector<IP> &pts, const string &desc) {
    size_t n = pts.size(); valarray<double> X(n), Y(n); for (size_t i = 0; i < n; i++) { X[i] = pts[i].x * 10.0; Y[i] = pts[i].y * 10.0; }
    vector<unsigned> h;
    try { hull::convex(X, Y, h); } catch (vpsc::CriticalFailure &f) { ctx.library_abort(f.what(), desc); return; }
    ctx.count("evaluations");
    // functional sanity (counted, and reported only outside C15 mode): indices valid, positions = exact hull vertex set
    // (collinear boundary points may legitimately be kept or dropped, so compare after removing them from the library's answer)
    vector<IP> got; bool bad = false; for (unsigned i : h) { if (i >= n) { bad = true; break; } got.push_back(pts[i]); }
    if (bad) { ctx.raw_violation("hull_index_out_of_range", {"site:hull::convex returned an index >= n"}, desc, ""); return; }
    vector<IP> want = ref_hull(pts), g2 = ref_hull(got);
    if (!(g2 == want)) ctx.raw_violation("hull_wrong", {"site:hull::convex does not return the convex hull"}, desc, mcx::fmt("%zu hull indices, %zu reference vertices", h.size(), want.size()));
}
// every vector of counts (c_0..c_{P-1}) with sum n over P grid positions
static void hull_phase(int gw, int gh, int nmin, int nmax) {
    int P = gw * gh;
    ctx.phase(mcx::fmt("hull::convex: every multiset of %d..%d points over the %dx%d grid (counts per position), 3 input orders", nmin, nmax, gw, gh));
    for (int n = nmin; n <= nmax; n++) {
        vector<int> cnt(P, 0); cnt[0] = n;
        while (true) {
            if (ctx.stopped()) return;
            if (ctx.next()) {
                vector<IP> pts; for (int p = 0; p < P; p++) for (int k = 0; k < cnt[p]; k++) pts.push_back(IP{p % gw, p / gw});
                string desc = mcx::fmt("hull::convex n=%d counts", n); for (int p = 0; p < P; p++) desc += mcx::fmt(" %d", cnt[p]);
                ctx.announce(desc); ctx.count("states"); ctx.count("transitions", 3); int distinct = 0; for (int c : cnt) if (c) distinct++; if (distinct < n) ctx.count("nontrivial");
                ctx.sample(desc, 2);
                hull_case(pts, desc + " order=by position");
                vector<IP> r = pts; reverse(r.begin(), r.end()); hull_case(r, desc + " order=reversed");
                vector<IP> il; for (size_t i = 0; i < pts.size(); i += 2) il.push_back(pts[i]); for (size_t i = 1; i < pts.size(); i += 2) il.push_back(pts[i]); hull_case(il, desc + " order=interleaved");
                ctx.done_case();
            }
            // next composition of n into P parts (colex)
            int i = 0; while (i < P && cnt[i] == 0) i++;
            if (i >= P - 1) break;
            int v = cnt[i]; cnt[i] = 0; cnt[0] = v - 1; cnt[i + 1]++;
        }
    }
}
// (b) clusters
struct RC { double x0, x1, y0, y1; };
static void cluster_phase(int maxN) {
    vector<RC> alpha = {{0, 20, 0, 20}, {0, 20, 0, 20}, {10, 30, 0, 20}, {20, 40, 0, 20}, {0, 40, 30, 40}, {5, 15, 5, 15}};   // includes an exact duplicate, touching, nested
    ctx.phase(mcx::fmt("ConvexCluster::computeBoundary / RectangularCluster bounding box: every multiset of 1..%d rectangles over a %zu-element alphabet", maxN, alpha.size()));
    for (int n = 1; n <= maxN; n++) {
        vector<int> d(n, 0);
        do {
            if (ctx.stopped()) return; if (!ctx.next()) continue;
            string desc = mcx::fmt("clusters over %d rectangles:", n); for (int i : d) desc += mcx::fmt(" #%d", i);
            ctx.announce(desc); ctx.count("states"); ctx.count("transitions", 2); ctx.count("evaluations"); ctx.sample(desc, 1);
            bool dup = false; for (int i = 1; i < n; i++) if (d[i] == d[i - 1] || (d[i] == 1 && d[i - 1] == 0)) dup = true; if (dup) ctx.count("nontrivial");
            long before = mcx::heap_live_system();
            try {
                vpsc::Rectangles rs; for (int i : d) rs.push_back(new vpsc::Rectangle(alpha[i].x0, alpha[i].x1, alpha[i].y0, alpha[i].y1));
                {
                    RootCluster root; ConvexCluster *cc = new ConvexCluster(); RectangularCluster *rc = new RectangularCluster();
                    for (int i = 0; i < n; i++) { cc->addChildNode(i); if (i % 2 == 0) rc->addChildNode(i); }
                    root.addChildCluster(cc); if (n > 1) root.addChildCluster(rc); else delete rc;
                    root.computeBoundary(rs);
                    cc->computeBoundary(rs);
                    for (unsigned i = 0; i < cc->hullRIDs.size(); i++) if (cc->hullRIDs[i] >= (unsigned)n || cc->hullCorners[i] > 3) ctx.raw_violation("cluster_hull_index_out_of_range", {"site:ConvexCluster::computeBoundary"}, desc, "");
                    if (n > 1) { rc->computeBoundingRect(rs); }
                }
                for (auto r : rs) delete r;
            } catch (vpsc::CriticalFailure &f) { ctx.library_abort(f.what(), desc); }
            long d1 = mcx::heap_live_system() - before;
            if (d1 > 0) ctx.raw_violation("leak", {"site:leak after cluster teardown"}, desc, mcx::fmt("%ld allocations still live", d1));
            ctx.done_case();
        } while (mcx::multiset_next(d, (int)alpha.size()));
    }
}
// (c) configuration/layout histories on one ConstrainedFDLayout
enum { SET_CC1, SET_CC2, SET_CC_NONE, AVOID_EX, AVOID, AVOID_OFF, SET_HIER, SET_HIER2, MAKE_FEASIBLE, RUN, FREE_ASSOC, NLOPS };
static const char *LNAMES[] = {"setConstraints{Sep x0+25<=x1, Align y{0,2}}", "setConstraints{FixedRelative{1,2}, Boundary x}", "setConstraints{}", "setAvoidNodeOverlaps(true,{{0,1}})", "setAvoidNodeOverlaps(true)", "setAvoidNodeOverlaps(false)",
                               "setClusterHierarchy{{0,1}|{2}}", "setClusterHierarchy{{0}|{1,2} nested}", "makeFeasible", "run", "freeAssociatedObjects"};
static long layout_seq(const vector<int> &ops, int placement, bool &legal, string &assertion) {
    long before = mcx::heap_live_system(); legal = true; assertion.clear();
    try {
        double G[3] = {0, 15, 40}; int c = placement; vpsc::Rectangles rs;
        for (int i = 0; i < 3; i++) { double x = G[c % 3]; c /= 3; double y = G[c % 3]; c /= 3; rs.push_back(new vpsc::Rectangle(x - 10, x + 10, y - 10, y + 10)); }
        vector<Edge> es = {Edge(0, 1), Edge(1, 2)};
        vector<CompoundConstraint *> owned; vector<RootCluster *> ownedRoots; bool freed = false;
        {
            ConstrainedFDLayout alg(rs, es, 30); UnsatisfiableConstraintInfos ux, uy; alg.setUnsatisfiableConstraintInfo(&ux, &uy);
            for (int o : ops) {
                if (freed) { legal = false; break; }   // nothing may follow freeAssociatedObjects (it frees the rectangles)
                switch (o) {
                case SET_CC1: { CompoundConstraints ccs; AlignmentConstraint *a = new AlignmentConstraint(vpsc::YDIM); a->addShape(0, 0); a->addShape(2, 0); ccs.push_back(new SeparationConstraint(vpsc::XDIM, 0, 1, 25)); ccs.push_back(a); for (auto q : ccs) owned.push_back(q); alg.setConstraints(ccs); break; }
                case SET_CC2: { CompoundConstraints ccs; BoundaryConstraint *b = new BoundaryConstraint(vpsc::XDIM); b->addShape(0, -12); b->addShape(1, 12); ccs.push_back(new FixedRelativeConstraint(rs, {1, 2})); ccs.push_back(b); for (auto q : ccs) owned.push_back(q); alg.setConstraints(ccs); break; }
                case SET_CC_NONE: { CompoundConstraints ccs; alg.setConstraints(ccs); break; }
                case AVOID_EX: alg.setAvoidNodeOverlaps(true, {{0, 1}}); break;
                case AVOID: alg.setAvoidNodeOverlaps(true); break;
                case AVOID_OFF: alg.setAvoidNodeOverlaps(false); break;
                case SET_HIER: { RootCluster *root = new RootCluster(); RectangularCluster *a = new RectangularCluster(), *b = new RectangularCluster(); a->addChildNode(0); a->addChildNode(1); b->addChildNode(2); root->addChildCluster(a); root->addChildCluster(b); ownedRoots.push_back(root); alg.setClusterHierarchy(root); break; }
                case SET_HIER2: { RootCluster *root = new RootCluster(); RectangularCluster *a = new RectangularCluster(), *b = new RectangularCluster(), *in = new RectangularCluster(); a->addChildNode(0); in->addChildNode(1); b->addChildNode(2); b->addChildCluster(in); b->setPadding(Box(3)); root->addChildCluster(a); root->addChildCluster(b); ownedRoots.push_back(root); alg.setClusterHierarchy(root); break; }
                case MAKE_FEASIBLE: alg.makeFeasible(); break;
                case RUN: alg.run(); break;
                case FREE_ASSOC: { alg.freeAssociatedObjects(); freed = true; break; }
                }
                if (!legal) break;
            }
            for (auto u : ux) delete u; for (auto u : uy) delete u;
        }
        if (!freed) { for (auto r : rs) delete r; for (auto q : owned) delete q; for (auto q : ownedRoots) delete q; }
        else { // freeAssociatedObjects frees the rectangles, the constraints and the hierarchy CURRENTLY set; earlier sets stay the caller's
            // (which ones those are is decided by the scene model below)
        }
    } catch (vpsc::CriticalFailure &f) { assertion = f.what(); }
    return mcx::heap_live_system() - before;
}
static void layout_phase(int depth, const vector<int> &placements) {
    ctx.phase(mcx::fmt("ConstrainedFDLayout histories depth=%d over %d operations x %zu start placements (+ destruction)", depth, NLOPS - 1, placements.size()));
    vector<int> idx(depth, 0);
    do {
        if (ctx.stopped()) break;
        bool hasFree = false; for (int o : idx) if (o == FREE_ASSOC) hasFree = true; if (hasFree) continue;   // ownership after freeAssociatedObjects needs its own model: not in this alphabet
        bool lays = false; for (int o : idx) if (o == MAKE_FEASIBLE || o == RUN) lays = true; if (!lays) continue;
        for (int pl : placements) {
            if (!ctx.next()) continue;
            string desc = mcx::fmt("ConstrainedFDLayout placement#%d:", pl); for (int o : idx) desc += string(" ") + LNAMES[o]; desc += " ~ConstrainedFDLayout";
            ctx.announce(desc); bool legal; string as; long d1 = layout_seq(idx, pl, legal, as);
            if (!legal) { ctx.count("illegal_sequences_skipped"); ctx.done_case(); continue; }
            ctx.count("evaluations"); ctx.count("states"); ctx.count("transitions", depth + 1); ctx.sample(desc, 2);
            int cfg = 0; for (int o : idx) if (o != MAKE_FEASIBLE && o != RUN) cfg++; if (cfg >= 2) ctx.count("nontrivial");
            if (!as.empty()) ctx.library_abort(as, desc);
            else if (d1 > 0) { bool l2; string a2; long d2 = layout_seq(idx, pl, l2, a2); if (d2 > 0) ctx.raw_violation("leak", {"site:leak after ~ConstrainedFDLayout"}, desc, mcx::fmt("%ld allocations still live after the layout and everything the caller owns were destroyed (repeatable)", d2)); }
            ctx.done_case();
        }
    } while (mcx::odo_next(idx, NLOPS));
}
int main(int argc, char **argv) {
    ctx.init(argc, argv); ctx.opt["c15"] = "1";
    bool T = ctx.thorough();
    hull_phase(2, 2, 1, T ? 40 : 32);
    hull_phase(3, 3, 1, T ? 14 : 9);
    if (T) hull_phase(3, 2, 15, 24);
    cluster_phase(T ? 9 : 7);
    vector<int> pls = {0, 14, 364, 500}; if (T) pls = {0, 14, 100, 200, 364, 500, 600, 728};
    for (int depth = 1; depth <= (T ? 4 : 3); depth++) layout_phase(depth, pls);
    return ctx.finish();
}
