// C14: doHOLA on every labelled connected simple graph up to n nodes x start placements x sizes x options.
#include "libdialect/libdialect.h"
#include "libdialect/io.h"
#include "libdialect/hola.h"
#include "libdialect/opts.h"
#include "libdialect/constraints.h"
#include <functional>
#include <sstream>
#include <cmath>
#include <set>
#include <vector>
#include <array>
#include "mcx/mcx.h"
#ifdef C14_ARENA
#include "mcx/arena.h"
#endif
using namespace dialect; using namespace std;
static mcx::Ctx ctx;
typedef vector<pair<int, int>> EL;
static bool connected(int n, const EL &es) { vector<int> p(n); for (int i = 0; i < n; i++) p[i] = i; function<int(int)> f = [&](int x) { return p[x] == x ? x : p[x] = f(p[x]); }; for (auto &e : es) p[f(e.first)] = f(e.second); for (int i = 1; i < n; i++) if (f(i) != f(0)) return false; return true; }
static bool segHitsBox(double ax, double ay, double bx, double by, BoundingBox b, double eps) {
    double x0 = b.x + eps, x1 = b.X - eps, y0 = b.y + eps, y1 = b.Y - eps, lo = min(ax, bx), hi = max(ax, bx), lo2 = min(ay, by), hi2 = max(ay, by);
    if (fabs(ax - bx) < 1e-6) return ax > x0 && ax < x1 && hi2 > y0 && lo2 < y1;
    if (fabs(ay - by) < 1e-6) return ay > y0 && ay < y1 && hi > x0 && lo < x1;
    return true;
}
struct Cfg { int start; int sizes; bool aca, nearAlign; int aspect; int heap; int optset = 0; };   // optset: non-default HolaOpts (1 tree growth EAST + non-convex trees, 2 tree placement preferences off, 3 expansion/hub options flipped, 4 padding 0.5 + no ULC-at-origin + other tree routing)
static string cfg_str(const Cfg &c) { return mcx::fmt("start=%s sizes=%s useACAforLinks=%d do_near_align=%d aspect=%d heap=%d", c.start == 0 ? "circle" : c.start == 1 ? "coincident" : "line", c.sizes == 0 ? "30x30" : c.sizes == 1 ? "mixed" : c.sizes == 2 ? "nodes1,2=300x20" : c.sizes == 3 ? "nodes1,2=20x300" : c.sizes == 4 ? "all 10x10" : "node0=10x10", c.aca, c.nearAlign, c.aspect, c.heap) + (c.optset ? mcx::fmt(" optset=%d", c.optset) : std::string()); }
static string gstr(int n, const EL &es) { string s = mcx::fmt("n=%d edges:", n); for (auto &e : es) s += mcx::fmt(" %d-%d", e.first, e.second); return s; }

static const vector<array<double, 4>> *g_witness = nullptr;   // a witness input with its own node positions and sizes (x, y, w, h), see phase_witnesses()
static void run_one(int n, const EL &es, const Cfg &c) {
    string desc = "doHOLA " + gstr(n, es) + " " + cfg_str(c) + (g_witness ? " (positions and sizes of witness input #1 instead of start/sizes)" : ""), why, obs; int sepViol = 0, sepViolBentEdgeAlign = 0;
    ostringstream t; vector<pair<double, double>> dims;
    for (int i = 0; i < n; i++) {
        if (g_witness) { const double *q = (*g_witness)[i].data(); dims.push_back({q[2], q[3]}); t << i << " " << mcx::fmt("%.17g %.17g %.17g %.17g", q[0], q[1], q[2], q[3]) << "\n"; continue; }
        double x, y; if (c.start == 0) { double a = 2 * M_PI * i / n; x = 100 + 80 * cos(a); y = 100 + 80 * sin(a); } else if (c.start == 1) { x = 100; y = 100; } else { x = 60 * i; y = 0; }
        double w = 30, h = 30; if (c.sizes == 1) { w = (i % 2) ? 60 : 30; h = (i % 3 == 0) ? 20 : 40; }
        if (c.sizes == 2 && (i == 1 || i == 2)) { w = 300; h = 20; }   // two nodes far wider than the ideal edge length (twice the average node dimension)
        if (c.sizes == 3 && (i == 1 || i == 2)) { w = 20; h = 300; }   // ... far taller
        if (c.sizes == 4) { w = 10; h = 10; }   // every node small: many connectors per side compete for the side's length
        if (c.sizes == 5 && i == 0) { w = 10; h = 10; }   // a small hub among ordinary nodes
        dims.push_back({w, h}); t << i << " " << x << " " << y << " " << w << " " << h << "\n";
    }
    t << "#\n"; for (auto &e : es) t << e.first << " " << e.second << "\n"; string s = t.str();
    // input class for failures to return: all node centres on one line / on one point at the start (degenerate for the stress layout HOLA begins with)
    vector<string> abortClasses; if (!g_witness && c.start != 0 && n >= 3) abortClasses.push_back("collinear_or_coincident_start"); if (c.aspect != 2 && c.sizes) abortClasses.push_back("aspect_rotation_nonsquare");
    ctx.count("transitions"); ctx.count("evaluations");
#ifdef C14_ARENA
    if (c.heap) mcx::heap_begin(c.heap, mcx::REUSE_NONE, 0);
#endif
    try {
        {
        Graph_SP g = buildGraphFromTglf(s); HolaOpts opts; opts.useACAforLinks = c.aca; opts.do_near_align = c.nearAlign;
        opts.preferredAspectRatio = c.aspect == 0 ? AspectRatioClass::LANDSCAPE : c.aspect == 1 ? AspectRatioClass::PORTRAIT : AspectRatioClass::NONE;
        if (c.optset == 1) { opts.defaultTreeGrowthDir = CardinalDir::EAST; opts.preferredTreeGrowthDir = CardinalDir::EAST; opts.preferConvexTrees = false; }
        if (c.optset == 2) { opts.treePlacement_favourCardinal = false; opts.treePlacement_favourExternal = false; opts.treePlacement_favourIsolation = false; }
        if (c.optset == 3) { opts.expansion_doCostlierDimensionFirst = true; opts.expansion_estimateMethod = ExpansionEstimateMethod::SPACE; opts.orthoHubAvoidFlatTriangles = false; }
        if (c.optset == 4) { opts.nodePaddingScalar = 0.5; opts.putUlcAtOrigin = false; opts.peeledTreeRouting = TreeRoutingType::MONOTONIC; opts.wholeTreeRouting = TreeRoutingType::STRICT; }
        set<pair<int, int>> want; for (auto &e : es) want.insert({min(e.first, e.second), max(e.first, e.second)});
        doHOLA(*g, opts);
        if ((int)g->getNumNodes() != n || g->getNumEdges() != es.size()) why = "node/edge count changed";
        vector<Node_SP> ns; for (auto &p : g->getNodeLookup()) ns.push_back(p.second);
        set<pair<int, int>> got; for (auto &p : g->getEdgeLookup()) { int a = p.second->getSourceEnd()->getExternalId(), b = p.second->getTargetEnd()->getExternalId(); got.insert({min(a, b), max(a, b)}); }
        if (got != want) why = "edge set changed";
        for (auto &u : ns) { dimensions d = u->getDimensions(); int ext = u->getExternalId(); if (ext < 0 || ext >= n) { why = "unknown node"; continue; }
            if (fabs(d.first - dims[ext].first) > 1e-9 || fabs(d.second - dims[ext].second) > 1e-9) { why = "node size changed"; obs = mcx::fmt("node %d is %.17gx%.17g, was %gx%g", ext, d.first, d.second, dims[ext].first, dims[ext].second); }
            Avoid::Point cc = u->getCentre(); if (!(cc.x == cc.x) || !(cc.y == cc.y) || std::isinf(cc.x) || std::isinf(cc.y)) why = "non-finite coordinate"; }
        for (size_t i = 0; i < ns.size(); i++) for (size_t j = i + 1; j < ns.size(); j++) { BoundingBox a = ns[i]->getBoundingBox(), b = ns[j]->getBoundingBox(); double ox = min(a.X, b.X) - max(a.x, b.x), oy = min(a.Y, b.Y) - max(a.y, b.y); if (ox > 1e-6 && oy > 1e-6) { why = "nodes overlap"; obs = mcx::fmt("%d and %d by %gx%g", ns[i]->getExternalId(), ns[j]->getExternalId(), ox, oy); } }
        int bends = 0;
        for (auto &p : g->getEdgeLookup()) {
            Edge_SP e = p.second; vector<Avoid::Point> r = e->getRoute(); auto ends = e->getEndIds();
            if (r.size() < 2) { why = "route has fewer than two points"; continue; }
            bends += r.size() - 2;
            for (size_t k = 1; k < r.size(); k++) {
                if (fabs(r[k].x - r[k - 1].x) > 1e-6 && fabs(r[k].y - r[k - 1].y) > 1e-6) { why = "route segment not axis-parallel"; obs = mcx::fmt("(%g,%g)-(%g,%g)", r[k - 1].x, r[k - 1].y, r[k].x, r[k].y); }
                for (auto &u : ns) { if (u->id() == ends.first || u->id() == ends.second) continue; if (segHitsBox(r[k - 1].x, r[k - 1].y, r[k].x, r[k].y, u->getBoundingBox(), 1e-6)) { why = "route passes through a third node"; obs = mcx::fmt("edge %d-%d seg (%g,%g)-(%g,%g) node %d", e->getSourceEnd()->getExternalId(), e->getTargetEnd()->getExternalId(), r[k - 1].x, r[k - 1].y, r[k].x, r[k].y, u->getExternalId()); } }
            }
            Node_SP a = g->getNodeLookup().at(ends.first), b = g->getNodeLookup().at(ends.second); BoundingBox ba = a->getBoundingBox(), bb = b->getBoundingBox();
            // "within the documented node padding": HolaOpts::nodePaddingScalar x ideal edge length is added to each node's width and height during layout
            double padTol = opts.nodePaddingScalar * g->getIEL() / 2 + 1e-6;
            auto inb = [&](Avoid::Point q, BoundingBox B) { return q.x >= B.x - padTol && q.x <= B.X + padTol && q.y >= B.y - padTol && q.y <= B.Y + padTol; };
            if (!((inb(r.front(), ba) && inb(r.back(), bb)) || (inb(r.front(), bb) && inb(r.back(), ba)))) why = "route does not begin/end at its end nodes";
        }
        ctx.cls("total_bends", mcx::fmt("%d", min(bends, 12)));
        // separation constraints returned with the graph hold at the returned positions
        ColaGraphRep &cgr = g->updateColaGraphRep(); int ncons = 0;
        for (int d = 0; d < 2; d++) {
            vpsc::Variables vs; for (size_t i = 0; i < cgr.rs.size(); i++) vs.push_back(new vpsc::Variable(i, d == 0 ? cgr.rs[i]->getCentreX() : cgr.rs[i]->getCentreY()));
            vpsc::Constraints cs; g->getSepMatrix().generateSeparationConstraints((vpsc::Dim)d, vs, cs, cgr.rs);
            for (auto cc : cs) { ncons++; double sl = cc->right->desiredPosition - cc->left->desiredPosition - cc->gap; if (cc->equality ? fabs(sl) > 1e-4 : sl < -1e-4) { why = "returned separation constraint violated"; obs = mcx::fmt("dim %d: var%d + %g %s var%d, slack %g", d, cc->left->id, cc->gap, cc->equality ? "==" : "<=", cc->right->id, sl); sepViol++;
                    // is it an alignment (== with gap 0) of the two ends of an edge whose returned route has bends?
                    if (cc->equality && cc->gap == 0) { id_type ia = 0, ib = 0; bool fa = false, fb = false; for (auto &q : cgr.id2ix) { if ((int)q.second == cc->left->id) { ia = q.first; fa = true; } if ((int)q.second == cc->right->id) { ib = q.first; fb = true; } }
                        if (fa && fb) for (auto &p : g->getEdgeLookup()) { auto en = p.second->getEndIds(); if (((en.first == ia && en.second == ib) || (en.first == ib && en.second == ia)) && p.second->getRoute().size() > 2) { sepViolBentEdgeAlign++; break; } } } }
                delete cc; }
            for (auto v : vs) delete v;
        }
        if (ncons > 0 && es.size() >= (size_t)n) ctx.count("nontrivial_runs");
        }
    } catch (std::exception &e) { ctx.library_abort(string("exception: ") + e.what(), desc, abortClasses); }
    catch (vpsc::CriticalFailure &f) { ctx.library_abort(f.what(), desc, abortClasses); }
#ifdef C14_ARENA
    if (c.heap) mcx::heap_end();
#endif
    vector<string> kc; if (c.aspect != 2 && c.sizes) kc.push_back("aspect_rotation_nonsquare");
    if (c.optset == 4 && (int)es.size() == n - 1) kc.push_back("strict_tree_routing_with_node_padding_half");   // a pure tree laid out with wholeTreeRouting=STRICT and nodePaddingScalar=0.5
    if (c.start == 2 && n >= 5) kc.push_back("collinear_start");
    if (g_witness && !c.nearAlign) kc.push_back("witness_hexagon_with_five_hanging_nodes_near_align_off");
    if (c.sizes == 3 && (int)es.size() == n - 1 && c.optset == 0) kc.push_back("tree_with_nodes_longer_than_the_rank_separation");   // a pure tree (default growth direction: vertical) with nodes 300 tall
    if (sepViol > 0 && sepViol == sepViolBentEdgeAlign) kc.push_back("alignment_of_an_edge_that_is_routed_with_bends");   // every node centre initially on one line (degenerate for the stress layout)
    if (!why.empty()) ctx.violation(why, kc, desc, obs);
}
static void phase(int n, const vector<Cfg> &cfgs, const char *label) {
    EL all; for (int i = 0; i < n; i++) for (int j = i + 1; j < n; j++) all.push_back({i, j});
    ctx.phase(mcx::fmt("n=%d all labelled connected simple graphs x %zu configurations (%s)", n, cfgs.size(), label));
    for (unsigned mask = 1; mask < (1u << all.size()) && !ctx.stopped(); mask++) {
        EL es; for (size_t k = 0; k < all.size(); k++) if (mask >> k & 1) es.push_back(all[k]);
        if (!connected(n, es)) continue;
        for (auto &c : cfgs) { if (!ctx.next()) continue; ctx.count("states"); ctx.sample(gstr(n, es) + " " + cfg_str(c)); if ((int)es.size() >= n) ctx.count("nontrivial"); run_one(n, es, c); ctx.done_case(); }
    }
}

// cores with hanging trees: a small cyclic core (triangle, 4-cycle, 4-cycle with a chord, 5-cycle) to which t further nodes are attached
// one after the other, each to ANY earlier node -- every shape of hanging forest with t nodes on every attachment point.  This is the
// class that exercises peeling, tree placement in faces and the final aspect-ratio rotation with trees growing in different directions.
static void phase_core_trees(int tmax, const vector<Cfg> &cfgs) {
    vector<pair<int, EL>> cores = {{3, {{0, 1}, {1, 2}, {0, 2}}}, {4, {{0, 1}, {1, 2}, {2, 3}, {0, 3}}}, {4, {{0, 1}, {1, 2}, {2, 3}, {0, 3}, {0, 2}}}, {5, {{0, 1}, {1, 2}, {2, 3}, {3, 4}, {0, 4}}}};
    ctx.phase(mcx::fmt("cores {C3, C4, C4+chord, C5} with every hanging forest of 1..%d further nodes (each attached to any earlier node) x %zu configurations", tmax, cfgs.size()));
    for (auto &core : cores) for (int t = 1; t <= tmax - (core.first - 3); t++) {
        vector<int> par(t, 0);
        while (true) {
            if (ctx.stopped()) return;
            int n = core.first + t; EL es = core.second; for (int k = 0; k < t; k++) es.push_back({par[k], core.first + k});
            for (auto &c : cfgs) { if (!ctx.next()) continue; ctx.count("states"); ctx.count("nontrivial"); ctx.sample(gstr(n, es) + " " + cfg_str(c), 1); run_one(n, es, c); ctx.done_case(); }
            int k = t - 1; while (k >= 0 && ++par[k] == core.first + k) { par[k] = 0; k--; } if (k < 0) break;
        }
    }
}

// every labelled connected LEAFLESS graph on n0 nodes as core, with every hanging forest of 1..tmax further nodes
static void phase_leafless_cores(int n0, int tmax, const vector<Cfg> &cfgs) {
    EL all; for (int i = 0; i < n0; i++) for (int j = i + 1; j < n0; j++) all.push_back({i, j});
    ctx.phase(mcx::fmt("every labelled connected leafless graph on %d nodes as core, with every hanging forest of 1..%d further nodes x %zu configurations", n0, tmax, cfgs.size()));
    for (unsigned mask = 1; mask < (1u << all.size()) && !ctx.stopped(); mask++) {
        EL core; vector<int> deg(n0, 0); for (size_t k = 0; k < all.size(); k++) if (mask >> k & 1) { core.push_back(all[k]); deg[all[k].first]++; deg[all[k].second]++; }
        bool ok = connected(n0, core); for (int d : deg) if (d < 2) ok = false; if (!ok) continue;
        for (int t = 1; t <= tmax; t++) { vector<int> par(t, 0);
            while (true) {
                if (ctx.stopped()) return;
                int n = n0 + t; EL es = core; for (int k = 0; k < t; k++) es.push_back({par[k], n0 + k});
                for (auto &c : cfgs) { if (!ctx.next()) continue; ctx.count("states"); ctx.count("nontrivial"); ctx.sample(gstr(n, es) + " " + cfg_str(c), 1); run_one(n, es, c); ctx.done_case(); }
                int k = t - 1; while (k >= 0 && ++par[k] == n0 + k) { par[k] = 0; k--; } if (k < 0) break;
            } }
    }
}
// cycles with pendant nodes: C_n with one leaf hanging on every node of a subset S -- EVERY subset.  Several one-node trees then land side by side in one face
// of the core (the situation tree re-insertion, near alignment and the final destress have to sort out).
static void phase_cycle_pendants(int n0, const vector<Cfg> &cfgs) {
    ctx.phase(mcx::fmt("cycle C%d with a pendant node on every node of a subset, every non-empty subset x %zu configurations", n0, cfgs.size()));
    for (unsigned mask = 1; mask < (1u << n0) && !ctx.stopped(); mask++) {
        EL es; for (int i = 0; i < n0; i++) es.push_back({i, (i + 1) % n0}); int n = n0; for (int i = 0; i < n0; i++) if (mask >> i & 1) es.push_back({i, n++});
        for (auto &c : cfgs) { if (!ctx.next()) continue; ctx.count("states"); ctx.count("nontrivial"); ctx.sample(gstr(n, es) + " " + cfg_str(c), 1); run_one(n, es, c); ctx.done_case(); }
    }
}
// ... and with SEVERAL leaves per cycle node: every distribution of 1..tmax leaves over the nodes of C_n0 (stars hanging on the cycle: several one-node trees share a root)
static void phase_cycle_leaf_distributions(int n0, int tmax, const vector<Cfg> &cfgs) {
    ctx.phase(mcx::fmt("cycle C%d with every distribution of 1..%d leaves over its nodes x %zu configurations", n0, tmax, cfgs.size()));
    vector<int> cnt(n0, 0);
    while (true) { int k = 0; while (k < n0 && ++cnt[k] > tmax) { cnt[k] = 0; k++; } if (k == n0) break; int tot = 0; for (int v : cnt) tot += v; if (tot > tmax) continue; if (ctx.stopped()) return;
        EL es; for (int i = 0; i < n0; i++) es.push_back({i, (i + 1) % n0}); int n = n0; for (int i = 0; i < n0; i++) for (int q = 0; q < cnt[i]; q++) es.push_back({i, n++});
        for (auto &c : cfgs) { if (!ctx.next()) continue; ctx.count("states"); ctx.count("nontrivial"); ctx.sample(gstr(n, es) + " " + cfg_str(c), 1); run_one(n, es, c); ctx.done_case(); } }
}
// witness inputs: concrete graphs with irregular positions and sizes on which a failure was once found (by a seeding sub-agent's random search), kept as fixed members of
// the alphabet.  #1: a hexagon with five hanging nodes (three of them on one cycle node, one of these with a child of its own).
// Crowded hubs: wheels W_k (hub 0, rim 1..k) and fans (the rim a path), k up to kmax, the spokes written hub -> rim or rim -> hub (which end of an edge is its SOURCE
// decides which block of the end-segment nudging code handles the hub side), ordinary / all-small / small-hub sizes: far more connectors arrive on one side of the hub
// than fit at the routing nudging distance.
static void phase_wheels(int kmax, const vector<Cfg> &cfgs) {
    ctx.phase(mcx::fmt("wheels and fans with 4..%d rim nodes, spokes written hub->rim or rim->hub x %zu configurations", kmax, cfgs.size()));
    for (int k = 4; k <= kmax; k++) for (int fan = 0; fan < 2; fan++) for (int hubIsTarget = 0; hubIsTarget < 2; hubIsTarget++) {
        EL es; for (int i = 1; i <= k; i++) es.push_back(hubIsTarget ? make_pair(i, 0) : make_pair(0, i)); for (int i = 1; i < k; i++) es.push_back({i, i + 1}); if (!fan) es.push_back({k, 1});
        if (ctx.stopped()) return; if (!ctx.next()) continue; ctx.count("states"); ctx.count("nontrivial"); ctx.sample(gstr(k + 1, es), 1);
        for (auto &c : cfgs) run_one(k + 1, es, c); ctx.done_case(); }
}
static void phase_witnesses() {
    static const vector<array<double, 4>> W1 = {{75.779040013701604, 345.31781681531078, 36.153307712120863, 46.291007522972365}, {253.67156438410757, 565.43341048914249, 35.635319646623088, 26.813585612622759},
        {234.56128158189125, 320.02207809419747, 31.944287275453291, 34.668040981754949}, {503.31992475106443, 24.132436757921788, 59.180455503608556, 25.198936487010716}, {14.892883140243921, 260.31234584668442, 57.400096923182623, 42.498261191057729},
        {446.3185581592561, 82.495245713258342, 26.830908367114723, 45.57110509822347}, {122.18151716108734, 565.6918978448532, 20.536638306609511, 54.423926433373659}, {183.57157697003112, 61.945334930171136, 45.150663688777982, 46.348506209939309},
        {60.449977624573116, 246.58414268601788, 34.208819257055126, 49.69936299060808}, {222.33090474628551, 453.04045924511155, 22.338940509897011, 53.591601165849795}, {60.655963118151561, 292.91967528095512, 46.624607424191751, 46.190366923297361}};
    static const EL E1 = {{1, 0}, {5, 0}, {2, 1}, {3, 2}, {2, 6}, {4, 3}, {3, 7}, {8, 3}, {9, 3}, {4, 5}, {9, 10}};
    ctx.phase("witness inputs (irregular positions and sizes): hexagon with five hanging nodes x link mode x near-align");
    for (int aca = 0; aca < 2; aca++) for (int na = 0; na < 2; na++) { if (!ctx.next()) continue; Cfg c{0, 0, (bool)aca, (bool)na, 0, 0}; ctx.count("states"); ctx.count("nontrivial"); ctx.sample("witness#1 " + cfg_str(c), 1);
        g_witness = &W1; run_one(11, E1, c); g_witness = nullptr; ctx.done_case(); }
}
int main(int argc, char **argv) {
    ctx.init(argc, argv); ctx.viol_cap = 1000000;   // every failing input is recorded (some known findings list specific inputs)
    bool T = ctx.thorough();
    vector<Cfg> links; for (int aca = 0; aca < 2; aca++) for (int na = 0; na < 2; na++) links.push_back({0, 0, (bool)aca, (bool)na, 0, 0});
    vector<Cfg> full; for (int st = 0; st < 3; st++) for (int sz = 0; sz < 2; sz++) for (int aca = 0; aca < 2; aca++) for (int na = 0; na < 2; na++) for (int as = 0; as < 3; as++) full.push_back({st, sz, (bool)aca, (bool)na, as, 0});
    vector<Cfg> mid; for (int st = 0; st < 3; st++) for (int sz = 0; sz < 2; sz++) for (int aca = 0; aca < 2; aca++) mid.push_back({st, sz, (bool)aca, true, st, 0});
    phase(2, full, "all"); phase(3, full, "all"); phase(4, full, "all");
    phase(5, links, "link mode x near-align, circle start");
    { vector<Cfg> wide; for (int sz = 2; sz <= 3; sz++) for (int aca = 0; aca < 2; aca++) wide.push_back({0, sz, (bool)aca, true, 2, 0}); phase(3, wide, "two very wide / very tall nodes, no aspect preference"); phase(4, wide, "two very wide / very tall nodes, no aspect preference"); phase(5, wide, "two very wide / very tall nodes, no aspect preference"); }
    { vector<Cfg> ct; for (int aca = 0; aca < 2; aca++) for (int as = 0; as < 3; as++) ct.push_back({0, 0, (bool)aca, true, as, 0}); phase_core_trees(T ? 5 : 4, ct);
      { vector<Cfg> co; for (int o = 1; o <= 4; o++) { Cfg c{0, 0, true, true, 0, 0}; c.optset = o; co.push_back(c); Cfg d{0, 1, false, true, 1, 0}; d.optset = o; if (T) co.push_back(d); } phase_core_trees(T ? 4 : 3, co); phase(4, co, "non-default option sets"); if (T) phase(5, co, "non-default option sets"); }
      vector<Cfg> c2 = {{0, 0, true, true, 0, 0}, {0, 0, false, true, 0, 0}}; phase_leafless_cores(4, 2, ct); phase_leafless_cores(5, 1, c2); if (T) phase_leafless_cores(5, 2, c2); }
    phase_witnesses();
    { vector<Cfg> wc; for (int sz : {0, 4, 5}) for (int aca = 0; aca < 2; aca++) wc.push_back({0, sz, (bool)aca, true, 2, 0}); phase_wheels(T ? 20 : 16, wc); }
    { vector<Cfg> cp; for (int aca = 0; aca < 2; aca++) for (int na = 0; na < 2; na++) cp.push_back({0, 0, (bool)aca, (bool)na, 0, 0}); phase_cycle_pendants(4, cp); phase_cycle_pendants(5, cp); phase_cycle_pendants(6, cp); phase_cycle_pendants(7, cp); phase_cycle_leaf_distributions(4, 4, cp); phase_cycle_leaf_distributions(6, 5, cp); phase_cycle_leaf_distributions(5, 5, cp); if (T) { phase_cycle_pendants(8, cp); phase_cycle_leaf_distributions(6, 6, cp); phase_cycle_leaf_distributions(7, 5, cp); vector<Cfg> cm; for (int aca = 0; aca < 2; aca++) cm.push_back({0, 1, (bool)aca, true, 2, 0}); phase_cycle_leaf_distributions(6, 5, cm); } }
    if (T) { phase(5, mid, "starts x sizes x link mode"); phase(6, {{0, 0, true, true, 0, 0}, {0, 0, false, true, 0, 0}}, "link mode, circle start"); phase(6, {{1, 1, true, true, 1, 0}, {2, 1, false, false, 2, 0}}, "coincident/line starts, mixed sizes"); }
    return ctx.finish();
}
