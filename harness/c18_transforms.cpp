// C18: SepPair/SepMatrix transforms commute with geometry, compose like the dihedral group D4, are independent of the
// storage order (a,b)/(b,a), and TGLF round-trips.
#include "libdialect/libdialect.h"
#include "libdialect/constraints.h"
#include "libdialect/graphs.h"
#include "libdialect/io.h"
#include <libvpsc/rectangle.h>
#include <libvpsc/variable.h>
#include <libvpsc/constraint.h>
#include <cmath>
#include <vector>
#include "mcx/mcx.h"
using namespace dialect; using namespace std;
static mcx::Ctx ctx;
struct Pl { double x[2], y[2], w[2], h[2]; };
static const SepTransform TF[7] = {SepTransform::ROTATE90CW, SepTransform::ROTATE90ACW, SepTransform::ROTATE180, SepTransform::FLIPV, SepTransform::FLIPH, SepTransform::FLIPMD, SepTransform::FLIPOD};
static const char *TN[8] = {"R90CW", "R90ACW", "R180", "FLIPV", "FLIPH", "FLIPMD", "FLIPOD", "ID"};
static const SepDir DIRS[8] = {SepDir::EAST, SepDir::SOUTH, SepDir::WEST, SepDir::NORTH, SepDir::RIGHT, SepDir::DOWN, SepDir::LEFT, SepDir::UP};
static const char *DN[8] = {"EAST", "SOUTH", "WEST", "NORTH", "RIGHT", "DOWN", "LEFT", "UP"};
static const int OPP[8] = {2, 3, 0, 1, 6, 7, 4, 5};
// geometric action (y-down screen): ROTATE90CW (x,y)->(-y,x); FLIPV x->-x; FLIPH y->-y; FLIPMD swap; FLIPOD (x,y)->(-y,-x)
static void gmap(int t, double x, double y, double &nx, double &ny, bool &swapWH) {
    swapWH = false; nx = x; ny = y;
    switch (t) { case 0: nx = -y; ny = x; swapWH = true; break; case 1: nx = y; ny = -x; swapWH = true; break; case 2: nx = -x; ny = -y; break;
                 case 3: nx = -x; break; case 4: ny = -y; break; case 5: nx = y; ny = x; swapWH = true; break; case 6: nx = -y; ny = -x; swapWH = true; break; default: break; }
}
static Pl applyT(int t, const Pl &p) { Pl q = p; for (int i = 0; i < 2; i++) { bool sw; gmap(t, p.x[i], p.y[i], q.x[i], q.y[i], sw); q.w[i] = sw ? p.h[i] : p.w[i]; q.h[i] = sw ? p.w[i] : p.h[i]; } return q; }
// satisfaction is DEFINED by the library's own translation to VPSC constraints
static bool sat(SepPair sp, const Pl &p, double extraBdryGap = 0) {
    sp.src = 0; sp.tgt = 1;   // pairs taken out of a graph carry real node ids; src<tgt is preserved by construction
    ColaGraphRep cgr; for (int i = 0; i < 2; i++) { cgr.rs.push_back(new vpsc::Rectangle(p.x[i] - p.w[i] / 2, p.x[i] + p.w[i] / 2, p.y[i] - p.h[i] / 2, p.y[i] + p.h[i] / 2)); cgr.id2ix[i] = i; cgr.ix2id[i] = i; }
    SepMatrix m(nullptr); m.setExtraBdryGap(extraBdryGap); bool ok = true;
    for (int d = 0; d < 2; d++) {
        vpsc::Variables vs; for (int i = 0; i < 2; i++) vs.push_back(new vpsc::Variable(i, d == 0 ? p.x[i] : p.y[i]));
        vpsc::Constraint *c = sp.generateSeparationConstraint((vpsc::Dim)d, cgr, &m, vs);
        if (c) { double s = c->right->desiredPosition - c->left->desiredPosition - c->gap; if (c->equality ? fabs(s) > 1e-9 : s < -1e-9) ok = false; delete c; }
        for (auto v : vs) delete v;
    }
    for (auto r : cgr.rs) delete r;
    return ok;
}
static bool eqSP(const SepPair &a, const SepPair &b) { return a.xgt == b.xgt && a.ygt == b.ygt && a.xst == b.xst && a.yst == b.yst && a.xgap == b.xgap && a.ygap == b.ygap && signbit(a.xgap) == signbit(b.xgap) && signbit(a.ygap) == signbit(b.ygap); }
static string spstr(const SepPair &s) { return mcx::fmt("{x:%d/%d/%g y:%d/%d/%g}", (int)s.xgt, (int)s.xst, s.xgap, (int)s.ygt, (int)s.yst, s.ygap); }
static vector<Pl> placements() { vector<Pl> v; for (int ax = -3; ax <= 3; ax++) for (int ay = -3; ay <= 3; ay++) for (int sz = 0; sz < 4; sz++) { Pl p; p.x[0] = 0; p.y[0] = 0; p.x[1] = ax; p.y[1] = ay; p.w[0] = (sz & 1) ? 4 : 2; p.h[0] = 2; p.w[1] = 2; p.h[1] = (sz & 2) ? 4 : 2; v.push_back(p); } return v; }
// product of two symmetries as a symmetry index (7 = identity), found by acting on a probe
static int compose(int t1, int t2) {
    double px[2] = {1, 0}, py[2] = {0, 1}, ox[2], oy[2];
    for (int k = 0; k < 2; k++) { double x1, y1; bool sw; gmap(t1, px[k], py[k], x1, y1, sw); gmap(t2, x1, y1, ox[k], oy[k], sw); }
    for (int t = 0; t < 8; t++) { bool ok = true; for (int k = 0; k < 2; k++) { double x, y; bool sw; gmap(t, px[k], py[k], x, y, sw); if (x != ox[k] || y != oy[k]) ok = false; } if (ok) return t; }
    return -1;
}

int main(int argc, char **argv) {
    ctx.init(argc, argv);
    bool T = ctx.thorough();
    GapType gts[2] = {GapType::CENTRE, GapType::BDRY}; SepType sts[2] = {SepType::EQ, SepType::INEQ}; double gaps[5] = {0.0, -0.0, 1, -1, 2.5};
    vector<Pl> pls = placements();
    ctx.phase("commutation sat(c,P) <=> sat(T(c),T(P)) and D4 group laws");
    for (int di = 0; di < 8; di++) for (auto gt : gts) for (auto st : sts) for (double g : gaps) {
        if (!ctx.next()) continue;
        SepPair sp; sp.src = 0; sp.tgt = 1; sp.addSep(gt, DIRS[di], st, g);
        string cd = mcx::fmt("constraint %s gt=%d st=%d gap=%g%s", DN[di], (int)gt, (int)st, g, signbit(g) ? "(-0)" : "");
        ctx.sample(cd); ctx.count("states"); int nsat = 0;
        for (auto &p : pls) {
            bool s0 = sat(sp, p); nsat += s0;
            for (int t = 0; t < 7; t++) {
                ctx.count("transitions"); ctx.count("evaluations");
                SepPair sq = sp; sq.transform(TF[t]);
                if (sat(sq, applyT(t, p)) != s0) ctx.violation("transform_does_not_commute", {}, cd + mcx::fmt(" transform %s placement b=(%g,%g) sizes %gx%g,%gx%g", TN[t], p.x[1], p.y[1], p.w[0], p.h[0], p.w[1], p.h[1]), mcx::fmt("sat before=%d after=%d, transformed pair %s", s0, !s0, spstr(sq).c_str()));
            }
        }
        if (nsat > 0 && nsat < (int)pls.size()) ctx.count("nontrivial");
        // group laws bit-for-bit (including the sign of zero): every product of two symmetries, quarter turn^4
        for (int t1 = 0; t1 < 7; t1++) for (int t2 = 0; t2 < 7; t2++) {
            int c = compose(t1, t2); SepPair a = sp, b = sp; a.transform(TF[t1]); a.transform(TF[t2]); if (c < 7) b.transform(TF[c]);
            ctx.count("transitions");
            if (!eqSP(a, b)) ctx.violation("group_law", {}, cd + mcx::fmt(" %s then %s should equal %s", TN[t1], TN[t2], TN[c]), spstr(a) + " vs " + spstr(b));
        }
        { SepPair a = sp; for (int k = 0; k < 4; k++) a.transform(SepTransform::ROTATE90CW); if (!eqSP(a, sp)) ctx.violation("group_law", {}, cd + " R90CW^4", spstr(a)); }
        if (T) for (int t1 = 0; t1 < 7; t1++) for (int t2 = 0; t2 < 7; t2++) for (int t3 = 0; t3 < 7; t3++) { int c = compose(t1, t2); if (c < 0) continue; // length-3 words
            SepPair a = sp, b = sp; a.transform(TF[t1]); a.transform(TF[t2]); a.transform(TF[t3]); if (c < 7) b.transform(TF[c]); b.transform(TF[t3]);
            if (!eqSP(a, b)) ctx.violation("group_law", {}, cd + mcx::fmt(" %s %s %s", TN[t1], TN[t2], TN[t3]), spstr(a) + " vs " + spstr(b)); }
        ctx.done_case();
    }
    // ---- SepMatrix: histories of addSep under both storage orders, differential against canonical-order calls
    ctx.phase("SepMatrix addSep histories: (a,b) vs opposite direction under (b,a); then transform");
    struct Op { int order, di; GapType gt; SepType st; double gap; };
    vector<Op> alpha; for (int order = 0; order < 2; order++) for (int di = 0; di < 8; di++) for (auto gt : gts) for (auto st : sts) for (double g : {0.0, 1.0, -1.0}) alpha.push_back({order, di, gt, st, g});
    int depth = T ? 3 : 2;
    vector<Pl> pl2; for (auto &p : pls) if (p.w[0] == 2 || p.h[1] == 4) pl2.push_back(p);
    for (int d = 1; d <= depth && !ctx.stopped(); d++) {
        vector<int> idx(d, 0);
        do {
            if (d == 3 && (alpha[idx[0]].gap != 1.0 || alpha[idx[1]].gt != GapType::BDRY)) continue;   // keep depth 3 tractable
            if (!ctx.next()) continue;
            SepMatrix m1(nullptr), m2(nullptr); string hs;
            for (int k = 0; k < d; k++) {
                const Op &o = alpha[idx[k]];
                if (o.order == 0) { m1.addSep(0, 1, o.gt, DIRS[o.di], o.st, o.gap); m2.addSep(0, 1, o.gt, DIRS[o.di], o.st, o.gap); }
                else { m1.addSep(1, 0, o.gt, DIRS[o.di], o.st, o.gap); m2.addSep(0, 1, o.gt, DIRS[OPP[o.di]], o.st, o.gap); }
                hs += mcx::fmt(" addSep(%s,gt=%d,%s,st=%d,gap=%g)", o.order ? "1,0" : "0,1", (int)o.gt, DN[o.di], (int)o.st, o.gap);
                ctx.count("transitions");
            }
            ctx.sample(hs); ctx.count("states"); ctx.count("evaluations");
            bool anyFlip = false; for (int k = 0; k < d; k++) anyFlip |= alpha[idx[k]].order == 1; if (anyFlip) ctx.count("nontrivial");
            SepPair_SP s1 = m1.checkSepPair(0, 1), s2 = m2.checkSepPair(0, 1);
            if (!s1 || !s2) { ctx.violation("pair_missing", {}, hs); }
            else for (auto &p : pl2) if (sat(*s1, p) != sat(*s2, p)) { ctx.violation("storage_order_matters", {}, hs, mcx::fmt("placement b=(%g,%g): given-order %s canonical %s", p.x[1], p.y[1], spstr(*s1).c_str(), spstr(*s2).c_str())); break; }
            // ... then the whole-MATRIX transforms on the matrix this history built (SepMatrix::transform, transformClosedSubset over both nodes):
            // sat(m, P) <=> sat(T(m), T(P)); and free() must remove the pair
            if (s1 && d <= 2) for (int t = 0; t < 7; t++) for (int how = 0; how < 2; how++) {
                SepMatrix mt(nullptr);
                for (int k = 0; k < d; k++) { const Op &o = alpha[idx[k]]; if (o.order == 0) mt.addSep(0, 1, o.gt, DIRS[o.di], o.st, o.gap); else mt.addSep(1, 0, o.gt, DIRS[o.di], o.st, o.gap); }
                if (how == 0) mt.transform(TF[t]); else mt.transformClosedSubset(TF[t], std::set<id_type>{0, 1});
                SepPair_SP st = mt.checkSepPair(0, 1); ctx.count("transitions");
                if (!st) { ctx.violation("pair_missing", {}, hs + mcx::fmt(" then %s #%d", how ? "transformClosedSubset" : "transform", t)); break; }
                bool bad = false; for (auto &p : pl2) if (sat(*s1, p) != sat(*st, applyT(t, p))) { ctx.violation("matrix_transform_does_not_commute", {}, hs + mcx::fmt(" then %s #%d", how ? "transformClosedSubset({0,1})" : "transform", t), mcx::fmt("placement b=(%g,%g): before %s after %s", p.x[1], p.y[1], spstr(*s1).c_str(), spstr(*st).c_str())); bad = true; break; }
                if (bad) break;
            }
            if (s1) { SepMatrix mf(nullptr); for (int k = 0; k < d; k++) { const Op &o = alpha[idx[k]]; if (o.order == 0) mf.addSep(0, 1, o.gt, DIRS[o.di], o.st, o.gap); else mf.addSep(1, 0, o.gt, DIRS[o.di], o.st, o.gap); }
                mf.free(alpha[idx[0]].order ? 1 : 0, alpha[idx[0]].order ? 0 : 1); if (mf.checkSepPair(0, 1)) ctx.violation("free_leaves_constraint", {}, hs + " then free"); }
            ctx.done_case();
        } while (mcx::odo_next(idx, (int)alpha.size()) && !ctx.stopped());
    }
    // ---- direction helpers and pair queries of the constraint vocabulary (negateSepDir, the cardinal/lateral maps, getCardinalDir, addFixedRelativeSep,
    // roundGapsUpward): each has a one-line geometric meaning that is checked on every placement
    ctx.phase("SepDir helpers and SepMatrix pair queries: negateSepDir, cardinal<->lateral maps, getCardinalDir, addFixedRelativeSep, roundGapsUpward");
    for (int di = 0; di < 8; di++) for (auto gt : gts) for (auto st : sts) for (double g : {0.0, 1.0, -1.0, 2.5}) {
        if (!ctx.next()) continue; ctx.count("states"); ctx.count("evaluations"); ctx.count("nontrivial");
        string cd = mcx::fmt("dir=%s gt=%d st=%d gap=%g", DN[di], (int)gt, (int)st, g); ctx.sample(cd, 1);
        // storing the constraint under (a,b) or its NEGATION (by the library's own negateSepDir) under (b,a) is equivalent
        if (negateSepDir(DIRS[di]) != DIRS[OPP[di]]) ctx.violation("negateSepDir_wrong", {}, cd);
        { SepMatrix m1(nullptr), m2(nullptr); m1.addSep(0, 1, gt, DIRS[di], st, g); m2.addSep(1, 0, gt, negateSepDir(DIRS[di]), st, g); SepPair_SP s1 = m1.checkSepPair(0, 1), s2 = m2.checkSepPair(0, 1);
          if (!s1 || !s2) ctx.violation("pair_missing", {}, cd); else for (auto &p : pl2) if (sat(*s1, p) != sat(*s2, p)) { ctx.violation("negation_under_reversed_ids_not_equivalent", {}, cd, spstr(*s1) + " vs " + spstr(*s2)); break; } }
        if (di < 4) {
            static const CardinalDir CD[4] = {CardinalDir::EAST, CardinalDir::SOUTH, CardinalDir::WEST, CardinalDir::NORTH};
            if (sepDirToCardinalDir(DIRS[di]) != CD[di] || cardinalDirToSepDir(CD[di]) != DIRS[di]) ctx.violation("cardinal_maps_wrong", {}, cd);
            if (lateralWeakening(DIRS[di]) != DIRS[di + 4] || cardinalStrengthening(DIRS[di + 4]) != DIRS[di]) ctx.violation("lateral_maps_wrong", {}, cd);
            // the cardinal constraint implies its lateral weakening on every placement
            { SepMatrix mc(nullptr), ml(nullptr); mc.addSep(0, 1, gt, DIRS[di], st, g); ml.addSep(0, 1, gt, lateralWeakening(DIRS[di]), st, g); for (auto &p : pl2) if (sat(*mc.checkSepPair(0, 1), p) && !sat(*ml.checkSepPair(0, 1), p)) { ctx.violation("lateral_weakening_not_implied", {}, cd); break; } }
            // getCardinalDir names the side on which node 1 lies in every satisfying placement (positive separation), and flips with the id order
            if (g > 0 || (g == 0 && gt == GapType::BDRY)) { SepMatrix m(nullptr);   /* the sign of a stored gap IS the direction: a negative gap is outside the vocabulary */ m.addSep(0, 1, gt, DIRS[di], st, g); CardinalDir a = m.getCardinalDir(0, 1), b = m.getCardinalDir(1, 0);
                if (a != CD[di] || b != CD[(di + 2) % 4]) ctx.violation("getCardinalDir_wrong", {}, cd, mcx::fmt("(0,1)->%d (1,0)->%d", (int)a, (int)b));
                for (auto &p : pl2) if (sat(*m.checkSepPair(0, 1), p)) { double dx = p.x[1] - p.x[0], dy = p.y[1] - p.y[0]; bool ok = di == 0 ? dx > 0 : di == 1 ? dy > 0 : di == 2 ? dx < 0 : dy < 0; if (g > 0 && !ok) { ctx.violation("cardinal_direction_disagrees_with_geometry", {}, cd, mcx::fmt("b-a=(%g,%g)", dx, dy)); break; } } }
        }
        // roundGapsUpward: |gap| rounded up to an integer, sign kept
        { SepMatrix m(nullptr); m.addSep(0, 1, gt, DIRS[di], st, g); SepPair before = *m.checkSepPair(0, 1); m.roundGapsUpward(); SepPair after = *m.checkSepPair(0, 1);
          auto okr = [](double b, double a) { return fabs(a) == ceil(fabs(b)) && signbit(a) == signbit(b); };
          if (!okr(before.xgap, after.xgap) || !okr(before.ygap, after.ygap) || before.xst != after.xst || before.yst != after.yst || before.xgt != after.xgt || before.ygt != after.ygt) ctx.violation("roundGapsUpward_wrong", {}, cd, spstr(before) + " -> " + spstr(after)); }
        ctx.done_case();
    }
    for (double dx : {0.0, 3.0, -7.5}) for (double dy : {0.0, 4.0, -2.5}) for (int order = 0; order < 2; order++) {
        if (!ctx.next()) continue; ctx.count("states"); ctx.count("evaluations"); ctx.count("nontrivial");
        SepMatrix m(nullptr); if (order == 0) m.addFixedRelativeSep(0, 1, dx, dy); else m.addFixedRelativeSep(1, 0, -dx, -dy);
        string cd = mcx::fmt("addFixedRelativeSep(%s, %g, %g)", order ? "1,0" : "0,1", order ? -dx : dx, order ? -dy : dy);
        for (double bx : {0.0, 3.0, -7.5, 1.0}) for (double by : {0.0, 4.0, -2.5, 1.0}) { Pl p; p.x[0] = 10; p.y[0] = -5; p.x[1] = 10 + bx; p.y[1] = -5 + by; p.w[0] = p.w[1] = 2; p.h[0] = p.h[1] = 4;
            bool want = (bx == dx && by == dy), got = sat(*m.checkSepPair(0, 1), p); if (want != got) { ctx.violation("fixed_relative_sep_wrong", {}, cd, mcx::fmt("offset (%g,%g): satisfied=%d", bx, by, got)); break; } }
        ctx.done_case();
    }
    // ---- SepMatrix subset operations.  transformClosedSubset / transformOpenSubset / removeNodes / removeNode / setCorrespondingConstraints walk the
    // sparse id matrix and an id set in step (merge walks); which pairs they must touch is a one-line rule: closed = both ends in the set, open = at
    // least one end in the set, removeNodes = drop every pair with an end in the set, setCorrespondingConstraints(other) = copy every pair with both ends
    // in the other graph.  EVERY set of pairs over n nodes (each pair carrying its own distinctive constraint) x EVERY subset of the nodes x all 7 transforms.
    for (int n = 3; n <= (T ? 5 : 4); n++) {
        int np = n * (n - 1) / 2; vector<pair<int, int>> prs; for (int a = 0; a < n; a++) for (int b = a + 1; b < n; b++) prs.push_back({a, b});
        ctx.phase(mcx::fmt("SepMatrix subset operations on %d nodes: every set of pairs x every node subset x {transformClosedSubset, transformOpenSubset} x 7 transforms, removeNodes, removeNode, setCorrespondingConstraints", n));
        for (unsigned pmask = 1; pmask < (1u << np) && !ctx.stopped(); pmask++) for (unsigned smask = 0; smask < (1u << n); smask++) {
            if (!ctx.next()) continue;
            Graph G; vector<Node_SP> ns; for (int i = 0; i < n; i++) ns.push_back(G.addNode(i * 30.0, (i % 2) * 20.0, 10, 10));
            vector<id_type> id; for (auto &u : ns) id.push_back(u->id());
            auto fill = [&](SepMatrix &m) { for (int k = 0; k < np; k++) if (pmask >> k & 1) m.addSep(id[prs[k].first], id[prs[k].second], (k % 2) ? GapType::BDRY : GapType::CENTRE, DIRS[k % 8], (k % 3) ? SepType::INEQ : SepType::EQ, 1 + k); };
            std::set<id_type> S; NodesById SN; for (int i = 0; i < n; i++) if (smask >> i & 1) { S.insert(id[i]); SN.insert({id[i], ns[i]}); }
            string hs = mcx::fmt("n=%d pairs#%u subset#%u", n, pmask, smask); ctx.sample(hs, 1); ctx.count("states"); ctx.count("evaluations"); if (smask != 0 && smask != (1u << n) - 1) ctx.count("nontrivial");
            auto inS = [&](int i) { return (smask >> i & 1) != 0; };
            SepMatrix ref(nullptr); fill(ref);
            for (int how = 0; how < 2; how++) for (int t = 0; t < 7; t++) { SepMatrix m(nullptr); fill(m); if (how == 0) m.transformClosedSubset(TF[t], S); else m.transformOpenSubset(TF[t], S); ctx.count("transitions");
                for (int k = 0; k < np; k++) { SepPair_SP before = ref.checkSepPair(id[prs[k].first], id[prs[k].second]), after = m.checkSepPair(id[prs[k].first], id[prs[k].second]);
                    if (!(pmask >> k & 1)) { if (after) ctx.violation("subset_transform_created_pair", {}, hs + mcx::fmt(" %s %s pair(%d,%d)", how ? "transformOpenSubset" : "transformClosedSubset", TN[t], prs[k].first, prs[k].second)); continue; }
                    if (!after || !before) { ctx.violation("pair_missing", {}, hs + mcx::fmt(" %s %s pair(%d,%d)", how ? "transformOpenSubset" : "transformClosedSubset", TN[t], prs[k].first, prs[k].second)); continue; }
                    bool should = how == 0 ? (inS(prs[k].first) && inS(prs[k].second)) : (inS(prs[k].first) || inS(prs[k].second));
                    SepPair want = *before; if (should) want.transform(TF[t]);
                    if (!eqSP(*after, want)) ctx.violation(should ? "subset_transform_missed_pair" : "subset_transform_touched_pair_outside", {}, hs + mcx::fmt(" %s %s pair(%d,%d)", how ? "transformOpenSubset" : "transformClosedSubset", TN[t], prs[k].first, prs[k].second), spstr(*after) + " expected " + spstr(want)); } }
            { SepMatrix m(nullptr); fill(m); m.removeNodes(SN); ctx.count("transitions");
              for (int k = 0; k < np; k++) { SepPair_SP before = ref.checkSepPair(id[prs[k].first], id[prs[k].second]), after = m.checkSepPair(id[prs[k].first], id[prs[k].second]); bool keep = (pmask >> k & 1) && !inS(prs[k].first) && !inS(prs[k].second);
                  if (keep != (after != nullptr) || (keep && !eqSP(*after, *before))) ctx.violation("removeNodes_wrong", {}, hs + mcx::fmt(" pair(%d,%d) %s", prs[k].first, prs[k].second, keep ? "should have been kept unchanged" : "should have been removed")); } }
            if (S.size() == 1) { SepMatrix m(nullptr); fill(m); m.removeNode(*S.begin()); ctx.count("transitions");
              for (int k = 0; k < np; k++) { SepPair_SP after = m.checkSepPair(id[prs[k].first], id[prs[k].second]); bool keep = (pmask >> k & 1) && !inS(prs[k].first) && !inS(prs[k].second); if (keep != (after != nullptr)) ctx.violation("removeNode_wrong", {}, hs + mcx::fmt(" pair(%d,%d)", prs[k].first, prs[k].second)); } }
            { Graph H; for (int i = 0; i < n; i++) if (inS(i)) H.addNode(ns[i], false); fill(G.getSepMatrix()); G.getSepMatrix().setCorrespondingConstraints(H.getSepMatrix()); ctx.count("transitions");
              for (int k = 0; k < np; k++) { SepPair_SP before = ref.checkSepPair(id[prs[k].first], id[prs[k].second]), after = H.getSepMatrix().checkSepPair(id[prs[k].first], id[prs[k].second]); bool want = (pmask >> k & 1) && inS(prs[k].first) && inS(prs[k].second);
                  if (want != (after != nullptr) || (want && !eqSP(*after, *before))) ctx.violation("setCorrespondingConstraints_wrong", {}, hs + mcx::fmt(" pair(%d,%d) %s", prs[k].first, prs[k].second, want ? "should have been copied" : "should not be in the other matrix")); } }
            ctx.done_case();
        }
    }
    // ---- TGLF round trip
    ctx.phase("TGLF round trip: graphs n<=3, routes <=2 bends, <=2 constraints");
    {
        double xs[3] = {0, 37.5, -12.25}, szs[2] = {10, 22.5};
        vector<vector<Avoid::Point>> routes = {{}, {Avoid::Point(5, 7.5)}, {Avoid::Point(5, 7.5), Avoid::Point(-3.125, 11)}};
        for (int n = 1; n <= 3; n++) for (int emask = 0; emask < (1 << (n * (n - 1) / 2)); emask++) for (int rsel = 0; rsel < 3; rsel++) for (int c1 = -1; c1 < (int)(n >= 2 ? 8 * 2 * 2 : 0); c1 += (T ? 1 : 3)) for (int geom = 0; geom < 2; geom++) for (int xg = 0; xg < 2; xg++) {
            if (emask == 0 && rsel > 0) continue;
            if (xg && c1 < 0) continue;
            double extra = xg ? 12.5 : 0;   // the SepMatrix's global extra boundary gap, folded into every written BDRY gap
            if (!ctx.next()) continue;
            Graph G; vector<Node_SP> ns;
            for (int i = 0; i < n; i++) ns.push_back(G.addNode(xs[(i + geom) % 3], xs[(2 * i + geom) % 3] * 0.5, szs[(i + geom) % 2], szs[i % 2]));
            int e = 0; vector<Edge_SP> es;
            for (int i = 0; i < n; i++) for (int j = i + 1; j < n; j++, e++) if (emask >> e & 1) { Edge_SP ed = G.addEdge(ns[i], ns[j]); if (rsel) { vector<Avoid::Point> r; r.push_back(ns[i]->getCentre()); for (auto &p : routes[rsel]) r.push_back(p); r.push_back(ns[j]->getCentre()); ed->setRoute(r); } es.push_back(ed); }
            string cdesc = "none";
            // a centre-gap equality of 0 in a cardinal (separate-and-align) direction asks two nodes to coincide; writeTglf refuses that
            // with a runtime_error by design, so it is not part of the round-trip alphabet
            if (c1 >= 0 && (c1 % 8) < 4 && ((c1 / 8) % 2) == 0 && ((c1 / 16) % 2) == 0 && (c1 % 5) == 1) { ctx.count("skipped_coincidence_constraint"); ctx.done_case(); continue; }
            if (c1 >= 0) { int di = c1 % 8, gi = (c1 / 8) % 2, si = (c1 / 16) % 2; double gap = (c1 % 5) * 1.5 - 1.5; G.getSepMatrix().addSep(ns[0]->id(), ns[1]->id(), gts[gi], DIRS[di], sts[si], gap); cdesc = mcx::fmt("%s gt=%d st=%d gap=%g", DN[di], gi, si, gap);
                             if (n == 3) G.getSepMatrix().addSep(ns[2]->id(), ns[0]->id(), gts[1 - gi], DIRS[(di + 3) % 8], sts[si], 2.0); }
            G.getSepMatrix().setExtraBdryGap(extra);
            string desc = mcx::fmt("n=%d edgemask=%d route#%d constraint=%s geom=%d extraBdryGap=%g", n, emask, rsel, cdesc.c_str(), geom, extra);
            ctx.sample(desc); ctx.count("states"); ctx.count("transitions", 3); ctx.count("evaluations");
            if (c1 >= 0 || rsel) ctx.count("nontrivial");
            try {
                string t1 = G.writeTglf(false);
                Graph_SP H = buildGraphFromTglf(t1);
                string t2 = H->writeTglf(true);
                Graph_SP H2 = buildGraphFromTglf(t2);
                string t3 = H2->writeTglf(true);
                if (t2 != t3) ctx.violation("tglf_not_idempotent", {}, desc, "second: " + t2 + " third: " + t3);
                if (H->getNumNodes() != G.getNumNodes() || H->getNumEdges() != G.getNumEdges()) ctx.violation("tglf_loses_objects", {}, desc, t1);
                else {
                    // nodes in id order correspond (external ids are written in increasing order)
                    auto a = G.getNodeLookup(), b = H->getNodeLookup(); auto ia = a.begin(); auto ib = b.begin(); map<id_type, id_type> g2h;
                    for (; ia != a.end(); ++ia, ++ib) { g2h[ia->first] = ib->first; auto ca = ia->second->getCentre(), cb = ib->second->getCentre(); auto da = ia->second->getDimensions(), db = ib->second->getDimensions();
                        if (fabs(ca.x - cb.x) > 1e-3 || fabs(ca.y - cb.y) > 1e-3 || fabs(da.first - db.first) > 1e-3 || fabs(da.second - db.second) > 1e-3) ctx.violation("tglf_geometry", {}, desc, t1); }
                    // routes: same number of points, same coordinates to printed precision
                    auto ea = G.getEdgeLookup(), eb = H->getEdgeLookup(); auto ja = ea.begin(); auto jb = eb.begin();
                    for (; ja != ea.end() && jb != eb.end(); ++ja, ++jb) { auto ra = ja->second->getRoute(), rb = jb->second->getRoute(); bool ok = ra.size() == rb.size() || (ra.empty() || rb.empty());
                        if (ok && ra.size() == rb.size()) for (size_t k = 0; k < ra.size(); k++) if (fabs(ra[k].x - rb[k].x) > 1e-3 || fabs(ra[k].y - rb[k].y) > 1e-3) ok = false;
                        if (!ok) ctx.violation("tglf_route", {}, desc, t1 + " reread: " + t2); }
                    // constraints: semantically equal on the placement grid
                    if (c1 >= 0) { SepPair_SP s1 = G.getSepMatrix().checkSepPair(ns[0]->id(), ns[1]->id()), s2 = H->getSepMatrix().checkSepPair(g2h[ns[0]->id()], g2h[ns[1]->id()]);
                        if (!s1 || !s2) ctx.violation("tglf_constraint_lost", {}, desc, t1);
                        else { bool f1 = s1->flippedRetrieval, f2 = s2->flippedRetrieval; (void)f1; (void)f2; for (auto &p : pl2) if (sat(*s1, p, extra) != sat(*s2, p, H->getSepMatrix().getExtraBdryGap())) { ctx.violation("tglf_constraint_changed", {}, desc, t1 + " reread: " + t2); break; } } }
                }
            } catch (std::exception &ex) { ctx.violation("tglf_exception", {}, desc, ex.what()); }
            ctx.done_case();
        }
    }

    // ---- TGLF with EXTERNAL ids and nodes added after reading: Graph::writeTglf(true) must give every node a distinct id.  The ids of the added
    // (id-less) nodes are derived from internal ids, which are compared with the largest external id -- so the whole neighbourhood of that
    // comparison is enumerated: delta = (internal id of the first added node) - (largest external id) in -2..2 (external ids chosen accordingly)
    ctx.phase("TGLF with external ids, 1-2 nodes added after reading, written with useExternalIds: delta(internal id of first added node - largest external id) in -2..2");
    for (int n = 1; n <= 3; n++) for (int delta = -2; delta <= 2; delta++) for (int nadd = 1; nadd <= 2; nadd++) for (int link = 0; link < 3; link++) {
        if (!ctx.next()) continue;
        Node_SP probe = Node::allocate(); long P = (long)probe->id() + 1, maxExt = P + n - delta;
        if (maxExt - (n - 1) < 0) { ctx.done_case(); continue; }
        ostringstream t; for (int i = 0; i < n; i++) t << (maxExt - (n - 1 - i)) << " " << 40 * i << " " << 15 * i << " " << (20 + 5 * i) << " 20\n"; t << "#\n"; for (int i = 0; i + 1 < n; i++) t << (maxExt - (n - 1 - i)) << " " << (maxExt - (n - 2 - i)) << "\n";
        string desc = mcx::fmt("n=%d external ids %ld..%ld, %d node(s) added, link#%d, delta=%d", n, maxExt - (n - 1), maxExt, nadd, link, delta);
        ctx.sample(desc, 1); ctx.count("states"); ctx.count("transitions", 2); ctx.count("evaluations"); ctx.count("nontrivial");
        try {
            string ts = t.str(); Graph_SP H = buildGraphFromTglf(ts); vector<Node_SP> old; for (auto &p : H->getNodeLookup()) old.push_back(p.second);
            vector<Node_SP> added; for (int a = 0; a < nadd; a++) added.push_back(H->addNode(200 + 40 * a, 100, 25, 25));
            if ((long)added[0]->id() - maxExt != delta) ctx.count("id_prediction_off");
            if (link >= 1) H->addEdge(added[0], old.back()); if (link == 2) H->getSepMatrix().addSep(old.back()->id(), added[0]->id(), GapType::BDRY, SepDir::DOWN, SepType::INEQ, 5);
            string w = H->writeTglf(true);
            // every node line must carry a distinct id
            { istringstream is(w); string line; set<string> ids; bool dup = false; while (getline(is, line) && line != "#") { string id = line.substr(0, line.find(' ')); if (!ids.insert(id).second) dup = true; } if (dup) { ctx.violation("tglf_duplicate_node_id", {}, desc, w); ctx.done_case(); continue; } }
            Graph_SP K = buildGraphFromTglf(w);
            if (K->getNumNodes() != H->getNumNodes() || K->getNumEdges() != H->getNumEdges()) ctx.violation("tglf_loses_objects", {}, desc, w);
            else { // compare by geometry: every node of H has a node of K with the same centre and size, and edges join the same geometric pairs
                auto keyOf = [](Node_SP u) { auto c = u->getCentre(); auto d = u->getDimensions(); return mcx::fmt("%.3f,%.3f,%.3f,%.3f", c.x, c.y, d.first, d.second); };
                multiset<string> a, b; for (auto &p : H->getNodeLookup()) a.insert(keyOf(p.second)); for (auto &p : K->getNodeLookup()) b.insert(keyOf(p.second)); if (a != b) ctx.violation("tglf_geometry", {}, desc, w);
                multiset<string> ea, eb; for (auto &p : H->getEdgeLookup()) { string x = keyOf(p.second->getSourceEnd()), y = keyOf(p.second->getTargetEnd()); ea.insert(min(x, y) + "|" + max(x, y)); } for (auto &p : K->getEdgeLookup()) { string x = keyOf(p.second->getSourceEnd()), y = keyOf(p.second->getTargetEnd()); eb.insert(min(x, y) + "|" + max(x, y)); }
                if (ea != eb) ctx.violation("tglf_edge_ends_changed", {}, desc, w); }
        } catch (std::exception &ex) { ctx.violation("tglf_exception", {}, desc, ex.what()); }
        ctx.done_case();
    }
    return ctx.finish();
}
