// C10: nudging of orthogonal connectors that share a corridor.
#include "libavoid/libavoid.h"
#include <cmath>
#include <array>
#include <vector>
#include <functional>
#include "mcx/mcx.h"
#ifdef C10_ARENA
#include "mcx/arena.h"
#endif
using namespace Avoid; using namespace std;
static mcx::Ctx ctx;
static const int S = 20;
struct Seg { double x0, y0, x1, y1; bool end; };
static vector<Seg> segs(const PolyLine &r) { vector<Seg> v; for (size_t i = 1; i < r.size(); i++) v.push_back({r.ps[i - 1].x, r.ps[i - 1].y, r.ps[i].x, r.ps[i].y, (i == 1) || (i + 1 == r.size())}); return v; }
// overlap length of two parallel axis-parallel segments and their distance; -1 if not parallel
static double overlapLen(const Seg &a, const Seg &b, double &dist) {
    bool ah = a.y0 == a.y1, bh = b.y0 == b.y1, av = a.x0 == a.x1, bv = b.x0 == b.x1; dist = 1e9;
    if (ah && bh && !(av && ah)) { dist = fabs(a.y0 - b.y0); double lo = max(min(a.x0, a.x1), min(b.x0, b.x1)), hi = min(max(a.x0, a.x1), max(b.x0, b.x1)); return hi - lo; }
    if (av && bv) { dist = fabs(a.x0 - b.x0); double lo = max(min(a.y0, a.y1), min(b.y0, b.y1)), hi = min(max(a.y0, a.y1), max(b.y0, b.y1)); return hi - lo; }
    return -1;
}
static string rstr(const PolyLine &d) { string s; for (size_t q = 0; q < d.size(); q++) s += mcx::fmt("(%g,%g)", d.ps[q].x, d.ps[q].y); return s; }
static bool onRoute(const PolyLine &d, Point p) { for (size_t i = 1; i < d.size(); i++) { double ax = d.ps[i - 1].x, ay = d.ps[i - 1].y, bx = d.ps[i].x, by = d.ps[i].y; if (fabs((bx - ax) * (p.y - ay) - (p.x - ax) * (by - ay)) < 1e-9 && p.x >= min(ax, bx) - 1e-9 && p.x <= max(ax, bx) + 1e-9 && p.y >= min(ay, by) - 1e-9 && p.y <= max(ay, by) + 1e-9) return true; } return false; }

struct Cfg { double nd; int W; unsigned opts; int heap; bool checkpoint; };
static const RoutingOption OPTS[4] = {nudgeOrthogonalSegmentsConnectedToShapes, performUnifyingNudgingPreprocessingStep, nudgeOrthogonalTouchingColinearSegments, nudgeSharedPathsWithCommonEndPoint};

// corridor scene: two tall rectangles x in [1,3], leaving a channel y in [2,2+W] (cells); connectors run from x=0 to x=4
static void run_case(const vector<array<int, 4>> &E, const Cfg &c) {
    int k = E.size(); vector<string> kc; if (c.opts & 1) kc.push_back("option_nudgeOrthogonalSegmentsConnectedToShapes");
    string desc = mcx::fmt("channel width %d cells (S=%d) idealNudgingDistance=%g options=%u%s conns:", c.W, S, c.nd, c.opts, c.checkpoint ? " checkpoint on conn0" : "");
    for (auto &e : E) desc += mcx::fmt(" (%d,%d)->(%d,%d)", e[0], e[1], e[2], e[3]);
    ctx.announce(desc); ctx.count("transitions"); ctx.count("evaluations");
#ifdef C10_ARENA
    if (c.heap) mcx::heap_begin(c.heap, mcx::REUSE_NONE, 0);
#endif
    try {
        Router *router = new Router(OrthogonalRouting); router->setRoutingParameter(segmentPenalty, 50); router->setRoutingParameter(idealNudgingDistance, c.nd);
        for (int o = 0; o < 4; o++) router->setRoutingOption(OPTS[o], (c.opts >> o) & 1);
        Rectangle a(Point(1 * S, -6 * S), Point(3 * S, 2 * S)); new ShapeRef(router, a); Rectangle b(Point(1 * S, (2 + c.W) * S), Point(3 * S, (10 + c.W) * S)); new ShapeRef(router, b);
        vector<ConnRef *> cs; for (int i = 0; i < k; i++) cs.push_back(new ConnRef(router, ConnEnd(Point(E[i][0] * S, E[i][1] * S)), ConnEnd(Point(E[i][2] * S, E[i][3] * S))));
        Point cp(2 * S, 2 * S + c.W * S / 2.0);
        if (c.checkpoint) { vector<Checkpoint> cps; cps.push_back(Checkpoint(cp)); cs[0]->setRoutingCheckpoints(cps); }
        router->processTransaction();
        bool share = false; string all; for (int i = 0; i < k; i++) all += " [" + rstr(cs[i]->displayRoute()) + "]";
        for (int i = 0; i < k; i++) {
            const PolyLine &d = cs[i]->displayRoute(); PolyLine r = cs[i]->route().simplify();
            if (d.size() < 2 || d.ps[0].x != E[i][0] * S || d.ps[0].y != E[i][1] * S || d.ps[d.size() - 1].x != E[i][2] * S || d.ps[d.size() - 1].y != E[i][3] * S) ctx.violation("endpoint_moved", kc, desc, all);
            if (!(r.size() >= 2 && d.ps[0].x == r.ps[0].x && d.ps[0].y == r.ps[0].y && d.ps[d.size() - 1].x == r.ps[r.size() - 1].x && d.ps[d.size() - 1].y == r.ps[r.size() - 1].y)) ctx.violation("display_ends_differ_from_route", kc, desc, all);
            if (d.size() > r.size()) ctx.violation("segments_added", {}, desc, mcx::fmt("conn %d raw %s display %s", i, rstr(r).c_str(), rstr(d).c_str()));
            for (size_t q = 1; q < d.size(); q++) if (d.ps[q].x != d.ps[q - 1].x && d.ps[q].y != d.ps[q - 1].y) ctx.violation("not_orthogonal_after_nudging", {}, desc, all);
            if (c.checkpoint && i == 0 && !onRoute(d, cp)) ctx.violation("checkpoint_off_route", kc, desc, mcx::fmt("checkpoint (%g,%g) route %s", cp.x, cp.y, rstr(d).c_str()));
        }
        // "wide enough": the free interval round the shared stretch holds k-1 gaps of the ideal distance; a checkpoint pins
        // its connector to the middle of the channel, which halves the room on either side
        bool wide = c.checkpoint ? ((k - 1) * c.nd <= c.W * S / 2.0 - 1) : ((k - 1) * c.nd <= c.W * S + 1e-9);
        for (int i = 0; i < k; i++) for (int j = i + 1; j < k; j++) {
            PolyLine r1 = cs[i]->route().simplify(), r2 = cs[j]->route().simplify();
            for (auto &s : segs(r1)) for (auto &t : segs(r2)) { double dist; double L = overlapLen(s, t, dist); if (L > 1e-9 && !s.end && !t.end && dist < 1e-9) share = true; }
            for (auto &s : segs(cs[i]->displayRoute())) for (auto &t : segs(cs[j]->displayRoute())) { double dist; double L = overlapLen(s, t, dist);
                if (L > 1e-9 && !s.end && !t.end && wide) {
                    if (dist < 1e-9) {
                        // class: shared-path nudging switched off and some connector's endpoint lies on the shared stretch
                        vector<string> kc2 = kc; bool horiz = s.y0 == s.y1; double lo = horiz ? max(min(s.x0, s.x1), min(t.x0, t.x1)) : max(min(s.y0, s.y1), min(t.y0, t.y1)), hi = horiz ? min(max(s.x0, s.x1), max(t.x0, t.x1)) : min(max(s.y0, s.y1), max(t.y0, t.y1));
                        bool epOn = false; for (auto cr : cs) for (int q = 0; q < 2; q++) { const PolyLine &dr = cr->displayRoute(); const Point &ep = q ? dr.ps[dr.size() - 1] : dr.ps[0]; if (horiz ? (fabs(ep.y - s.y0) < 1e-6 && ep.x >= lo - 1e-6 && ep.x <= hi + 1e-6) : (fabs(ep.x - s.x0) < 1e-6 && ep.y >= lo - 1e-6 && ep.y <= hi + 1e-6)) epOn = true; }
                        if (!((c.opts >> 3) & 1) && epOn) kc2.push_back("shared_path_nudging_off_and_endpoint_on_shared_stretch");
                        ctx.violation("shared_path_not_separated", kc2, desc, all); }
                    else if (dist < c.nd - 1e-6 && dist < S * c.W) { // both inside the channel band?  only judge pairs that lie in the channel
                        bool inCh = (s.y0 == s.y1) && s.y0 > 2 * S - 1e-9 && s.y0 < (2 + c.W) * S + 1e-9 && t.y0 > 2 * S - 1e-9 && t.y0 < (2 + c.W) * S + 1e-9;
                        if (inCh) ctx.violation("separated_less_than_nudging_distance", kc, desc, mcx::fmt("distance %g < %g:", dist, c.nd) + all); }
                } }
        }
        if (share) ctx.count("nontrivial");
        ctx.cls("display_bends_conn0", mcx::fmt("%zu", cs[0]->displayRoute().size() - 2));
        delete router;
    } catch (vpsc::CriticalFailure &f) { ctx.library_abort(f.what(), desc); }
#ifdef C10_ARENA
    if (c.heap) mcx::heap_end();
#endif
}
static void phase(int k, const Cfg &c) {
    vector<array<int, 4>> eps; for (int y0 = 0; y0 <= 4 + c.W; y0++) for (int y1 = 0; y1 <= 4 + c.W; y1++) eps.push_back({{0, y0, 4, y1}});
    ctx.phase(mcx::fmt("corridor W=%d k=%d connectors nd=%g options=%u checkpoint=%d", c.W, k, c.nd, c.opts, c.checkpoint));
    vector<int> idx(k);
    function<void(int, int)> rec = [&](int pos, int start) {
        if (ctx.stopped()) return;
        if (pos == k) { for (int i = 0; i < k; i++) for (int j = i + 1; j < k; j++) { auto &A = eps[idx[i]], &B = eps[idx[j]]; if (A[1] == B[1] || A[3] == B[3]) return; }
            if (!ctx.next()) return; vector<array<int, 4>> E; for (int i : idx) E.push_back(eps[i]);
            // no two connectors share a column, so their (fixed) end segments never overlap and no shared path ends at an endpoint
            for (int i = 0; i < k; i++) { E[i][0] = -i; E[i][2] = 4 + i; } ctx.count("states"); ctx.sample(mcx::fmt("(0,%d)->(4,%d) ...", E[0][1], E[0][3]), 1); run_case(E, c); ctx.done_case(); return; }
        for (int i = start; i < (int)eps.size(); i++) { idx[pos] = i; rec(pos + 1, i + 1); }
    };
    rec(0, 0);
}
int main(int argc, char **argv) {
    ctx.init(argc, argv);
    bool T = ctx.thorough();
    for (double nd : {1.0, 4.0, 12.0}) for (unsigned o = 0; o < 16; o++) phase(2, {nd, 1, o, 0, false});
    for (double nd : {1.0, 4.0, 12.0}) for (unsigned o : {0u, 3u, 5u, 10u, 15u}) phase(3, {nd, 1, o, 0, false});
    for (double nd : {4.0, 12.0}) for (unsigned o : {0u, 15u}) { phase(2, {nd, 2, o, 0, false}); phase(2, {nd, 1, o, 0, true}); }
    if (T) { for (double nd : {1.0, 4.0, 12.0}) for (unsigned o = 0; o < 16; o++) { phase(3, {nd, 1, o, 0, false}); phase(2, {nd, 2, o, 0, false}); phase(2, {nd, 1, o, 0, true}); }
             for (double nd : {4.0, 12.0}) for (unsigned o : {0u, 2u, 15u}) { phase(3, {nd, 2, o, 0, false}); phase(3, {nd, 1, o, 0, true}); } phase(4, {4, 1, 2, 0, false}); phase(4, {4, 2, 15, 0, false}); }
    return ctx.finish();
}
