// C10: nudging of orthogonal connectors that share a corridor.
#include "libavoid/libavoid.h"
#include <cmath>
#include <algorithm>
#include <array>
#include <vector>
#include <functional>
#include "mcx/mcx.h"
#ifdef C10_ARENA
#include "mcx/arena.h"
#endif
using namespace Avoid; using namespace std;
static mcx::Ctx ctx;
static const int S = 20;
struct Seg { double x0, y0, x1, y1; bool end; };
static vector<Seg> segs(const PolyLine &r) { vector<Seg> v; for (size_t i = 1; i < r.size(); i++) v.push_back({r.ps[i - 1].x, r.ps[i - 1].y, r.ps[i].x, r.ps[i].y, (i == 1) || (i + 1 == r.size())}); return v; }
// overlap length of two parallel axis-parallel segments and their distance; -1 if not parallel
static double overlapLen(const Seg &a, const Seg &b, double &dist) {
    bool ah = a.y0 == a.y1, bh = b.y0 == b.y1, av = a.x0 == a.x1, bv = b.x0 == b.x1; dist = 1e9;
    if (ah && bh && !(av && ah)) { dist = fabs(a.y0 - b.y0); double lo = max(min(a.x0, a.x1), min(b.x0, b.x1)), hi = min(max(a.x0, a.x1), max(b.x0, b.x1)); return hi - lo; }
    if (av && bv) { dist = fabs(a.x0 - b.x0); double lo = max(min(a.y0, a.y1), min(b.y0, b.y1)), hi = min(max(a.y0, a.y1), max(b.y0, b.y1)); return hi - lo; }
    return -1;
}
static string rstr(const PolyLine &d) { string s; for (size_t q = 0; q < d.size(); q++) s += mcx::fmt("(%g,%g)", d.ps[q].x, d.ps[q].y); return s; }
static bool onRoute(const PolyLine &d, Point p) { for (size_t i = 1; i < d.size(); i++) { double ax = d.ps[i - 1].x, ay = d.ps[i - 1].y, bx = d.ps[i].x, by = d.ps[i].y; if (fabs((bx - ax) * (p.y - ay) - (p.x - ax) * (by - ay)) < 1e-9 && p.x >= min(ax, bx) - 1e-9 && p.x <= max(ax, bx) + 1e-9 && p.y >= min(ay, by) - 1e-9 && p.y <= max(ay, by) + 1e-9) return true; } return false; }

struct Cfg { double nd; int W; unsigned opts; int heap; bool checkpoint; };
static const RoutingOption OPTS[4] = {nudgeOrthogonalSegmentsConnectedToShapes, performUnifyingNudgingPreprocessingStep, nudgeOrthogonalTouchingColinearSegments, nudgeSharedPathsWithCommonEndPoint};

// "The channel is wide enough for the requested nudging distance": a placement of the movable horizontal segments exists that keeps
// every pair of x-overlapping segments of different connectors (not both fixed) at least `gap` apart.  Mirrors the limits the library
// itself applies (orthogonal.cpp buildOrthogonalNudgingSegments): end segments and the segment carrying a checkpoint are fixed (with
// end-segment nudging on they may move 15 units instead); a segment under the shapes stays inside the channel band; an S/Z bend stays
// between its neighbours; a segment next to the checkpoint's segment does not pass the checkpoint.  Decided exactly: every order of
// the movable segments x lowest placement.
struct ChSeg { int conn; double xlo, xhi, y; bool fixed; double lo, hi; };
// With `finals` (the routes after nudging, same point counts) the question is narrowed to the order the library chose: is the full gap
// feasible with every movable segment on the side of every other segment where it ended up?
static bool channelFeasible(const vector<PolyLine> &raws, double W, unsigned opts, bool hasCp, Point cp, double gap, const vector<PolyLine> *finals = nullptr) {
    vector<double> fin;
    vector<ChSeg> fx, fr; const double INF = 1e18, bandLo = 2 * S, bandHi = (2 + W) * S;
    for (size_t ci = 0; ci < raws.size(); ci++) { const PolyLine &r = raws[ci]; size_t n = r.size();
        for (size_t i = 1; i < n; i++) { if (r.ps[i].y != r.ps[i - 1].y || r.ps[i].x == r.ps[i - 1].x) continue; double y = r.ps[i].y; if (y < bandLo - 1e-9 || y > bandHi + 1e-9) continue;
            ChSeg g{(int)ci, min(r.ps[i].x, r.ps[i - 1].x), max(r.ps[i].x, r.ps[i - 1].x), y, false, -INF, INF}; bool isEnd = (i == 1) || (i + 1 == n);
            bool cpOn = hasCp && ci == 0 && fabs(cp.y - y) < 1e-9 && cp.x >= g.xlo - 1e-9 && cp.x <= g.xhi + 1e-9;
            if (!(opts & 1)) g.fixed = isEnd || cpOn; else if (isEnd) { g.lo = y - 15; g.hi = y + 15; }
            if (!g.fixed) { if (g.xhi > S && g.xlo < 3 * S) { g.lo = max(g.lo, bandLo); g.hi = min(g.hi, bandHi); }
                if (!isEnd && !cpOn) { double pv = r.ps[i - 2].y, nx = r.ps[i + 1].y; if (pv < y && nx > y) { g.lo = max(g.lo, pv); g.hi = min(g.hi, nx); } else if (pv > y && nx < y) { g.lo = max(g.lo, nx); g.hi = min(g.hi, pv); }
                    if (hasCp && ci == 0) for (size_t v : {i - 1, i}) { double vx = r.ps[v].x; size_t o = (v == i - 1) ? i - 2 : i + 1; double ylo = min(r.ps[v].y, r.ps[o].y), yhi = max(r.ps[v].y, r.ps[o].y);
                        if (fabs(cp.x - vx) < 1e-9 && cp.y >= ylo - 1e-9 && cp.y <= yhi + 1e-9 && fabs(cp.y - y) > 1e-9) { if (cp.y < y) g.lo = max(g.lo, cp.y); else g.hi = min(g.hi, cp.y); } } } }
            if (finals && !g.fixed) { if ((*finals)[ci].size() != n) return false; fin.push_back((*finals)[ci].ps[i].y); }
            (g.fixed ? fx : fr).push_back(g); } }
    auto ov = [](const ChSeg &a, const ChSeg &b) { return a.conn != b.conn && min(a.xhi, b.xhi) - max(a.xlo, b.xlo) > 1e-9; };
    vector<int> perm(fr.size()); for (size_t i = 0; i < perm.size(); i++) perm[i] = i;
    if (finals) { sort(perm.begin(), perm.end(), [&](int a, int b) { return fin[a] < fin[b]; }); vector<double> pos(fr.size());
        for (size_t a = 0; a < perm.size(); a++) { ChSeg &f = fr[perm[a]]; double lb = f.lo, ub = f.hi;
            for (size_t b = 0; b < a; b++) if (ov(f, fr[perm[b]])) { if (fin[perm[b]] > fin[perm[a]] - 1e-9) return false; lb = max(lb, pos[perm[b]] + gap); }
            for (auto &g : fx) if (ov(f, g)) { if (fabs(fin[perm[a]] - g.y) < 1e-9) return false; if (fin[perm[a]] > g.y) lb = max(lb, g.y + gap); else ub = min(ub, g.y - gap); }
            if (lb > ub + 1e-9) return false; pos[perm[a]] = lb; }
        // (placing each at its lowest position can only help the ones after it; upper bounds from later movable segments are implied)
        return true; }
    do { vector<double> pos(fr.size()); bool ok = true;
        for (size_t a = 0; a < perm.size() && ok; a++) { ChSeg &f = fr[perm[a]]; double lb = f.lo; for (size_t b = 0; b < a; b++) if (ov(f, fr[perm[b]])) lb = max(lb, pos[perm[b]] + gap);
            for (bool moved = true; moved;) { moved = false; for (auto &g : fx) if (ov(f, g) && fabs(lb - g.y) < gap - 1e-9) { lb = g.y + gap; moved = true; } }
            if (lb > f.hi + 1e-9) ok = false; pos[perm[a]] = lb; }
        if (ok) return true;
    } while (next_permutation(perm.begin(), perm.end()));
    return false;
}

// corridor scene: two tall rectangles x in [1,3], leaving a channel y in [2,2+W] (cells); connectors run from x=0 to x=4
static void run_case(const vector<array<int, 4>> &E, const Cfg &c) {
    int k = E.size(); vector<string> kc; if (c.opts & 1) kc.push_back("option_nudgeOrthogonalSegmentsConnectedToShapes");
    string desc = mcx::fmt("channel width %d cells (S=%d) idealNudgingDistance=%g options=%u%s conns:", c.W, S, c.nd, c.opts, c.checkpoint ? " checkpoint on conn0" : "");
    for (auto &e : E) desc += mcx::fmt(" (%d,%d)->(%d,%d)", e[0], e[1], e[2], e[3]);
    ctx.announce(desc); ctx.count("transitions"); ctx.count("evaluations");
#ifdef C10_ARENA
    if (c.heap) mcx::heap_begin(c.heap, mcx::REUSE_NONE, 0);
#endif
    try {
        Router *router = new Router(OrthogonalRouting); router->setRoutingParameter(segmentPenalty, 50); router->setRoutingParameter(idealNudgingDistance, c.nd);
        for (int o = 0; o < 4; o++) router->setRoutingOption(OPTS[o], (c.opts >> o) & 1);
        Rectangle a(Point(1 * S, -6 * S), Point(3 * S, 2 * S)); new ShapeRef(router, a); Rectangle b(Point(1 * S, (2 + c.W) * S), Point(3 * S, (10 + c.W) * S)); new ShapeRef(router, b);
        vector<ConnRef *> cs; for (int i = 0; i < k; i++) cs.push_back(new ConnRef(router, ConnEnd(Point(E[i][0] * S, E[i][1] * S)), ConnEnd(Point(E[i][2] * S, E[i][3] * S))));
        Point cp(2 * S, 2 * S + c.W * S / 2.0);
        if (c.checkpoint) { vector<Checkpoint> cps; cps.push_back(Checkpoint(cp)); cs[0]->setRoutingCheckpoints(cps); }
        router->processTransaction();
        bool share = false; string all; for (int i = 0; i < k; i++) all += " [" + rstr(cs[i]->displayRoute()) + "]";
        for (int i = 0; i < k; i++) {
            const PolyLine &d = cs[i]->displayRoute(); PolyLine r = cs[i]->route().simplify();
            if (d.size() < 2 || d.ps[0].x != E[i][0] * S || d.ps[0].y != E[i][1] * S || d.ps[d.size() - 1].x != E[i][2] * S || d.ps[d.size() - 1].y != E[i][3] * S) ctx.violation("endpoint_moved", kc, desc, all);
            if (!(r.size() >= 2 && d.ps[0].x == r.ps[0].x && d.ps[0].y == r.ps[0].y && d.ps[d.size() - 1].x == r.ps[r.size() - 1].x && d.ps[d.size() - 1].y == r.ps[r.size() - 1].y)) ctx.violation("display_ends_differ_from_route", kc, desc, all);
            if (d.size() > r.size()) ctx.violation("segments_added", {}, desc, mcx::fmt("conn %d raw %s display %s", i, rstr(r).c_str(), rstr(d).c_str()));
            for (size_t q = 1; q < d.size(); q++) if (d.ps[q].x != d.ps[q - 1].x && d.ps[q].y != d.ps[q - 1].y) ctx.violation("not_orthogonal_after_nudging", {}, desc, all);
            if (c.checkpoint && i == 0 && !onRoute(d, cp)) ctx.violation("checkpoint_off_route", kc, desc, mcx::fmt("checkpoint (%g,%g) route %s", cp.x, cp.y, rstr(d).c_str()));
        }
        // "wide enough for the requested nudging distance": decided exactly by channelFeasible() on the routes before nudging
        vector<PolyLine> raws; for (int i = 0; i < k; i++) raws.push_back(cs[i]->route().simplify());
        bool wide = channelFeasible(raws, c.W, c.opts, c.checkpoint, cp, c.nd);
        if (wide) ctx.count("wide_enough");
        // The library reduces the gap (in steps of a tenth, never below a tenth) only when the full distance is infeasible.  The full
        // distance is demanded where nothing but the channel walls limits the segments: no endpoint inside the channel band (a fixed
        // end segment there, or an S/Z bend limited by it, takes room), and - with end-segment nudging on, where a free end segment
        // may move 15 units at most - no endpoint on the band's edge either.  Otherwise: at least a tenth of the distance.
        bool strictSep = true; for (auto &e : E) for (int q : {1, 3}) { if (e[q] > 2 && e[q] < 2 + c.W) strictSep = false; if (((c.opts & 1) || c.checkpoint) && e[q] >= 2 && e[q] <= 2 + c.W) strictSep = false; }   // (a checkpoint holds its segment mid-channel: an end segment on the band's edge then closes off that half)
        vector<PolyLine> fins; for (int i = 0; i < k; i++) fins.push_back(cs[i]->displayRoute());
        bool fullFeasibleInChosenOrder = wide && channelFeasible(raws, c.W, c.opts, c.checkpoint, cp, c.nd, &fins);
        double needSep = (strictSep && fullFeasibleInChosenOrder) ? c.nd : c.nd / 10; if (needSep == c.nd) ctx.count("full_distance_demanded");
        // class: a fixed end segment lying on a channel wall shares a stretch with another connector's segment
        { bool endOnWall = false; for (int i = 0; i < k; i++) for (int j = 0; j < k; j++) if (i != j) for (auto &s : segs(cs[i]->displayRoute())) for (auto &t : segs(cs[j]->displayRoute())) { double dist; double L = overlapLen(s, t, dist);
              if (L > 1e-9 && dist < 1e-9 && s.end && s.y0 == s.y1 && (fabs(s.y0 - 2 * S) < 1e-9 || fabs(s.y0 - (2 + c.W) * S) < 1e-9) && max(s.x0, s.x1) > S && min(s.x0, s.x1) < 3 * S) endOnWall = true; }
          if (endOnWall) kc.push_back("end_segment_on_channel_wall_shares_stretch"); }
        // class: unifying preprocessing on, and two FIXED segments (end segments, or the one carrying the checkpoint) of different connectors are collinear and overlapping
        if ((c.opts & 2) && !(c.opts & 1)) { bool ff = false; auto fixedSeg = [&](int ci, const Seg &s) { return s.end || (c.checkpoint && ci == 0 && onRoute([&] { PolyLine pl(2); pl.ps[0] = Point(s.x0, s.y0); pl.ps[1] = Point(s.x1, s.y1); return pl; }(), cp)); };
            for (int i = 0; i < k; i++) for (int j = i + 1; j < k; j++) for (auto &s : segs(cs[i]->displayRoute())) for (auto &t : segs(cs[j]->displayRoute())) { double dist; double L = overlapLen(s, t, dist); if (L > 1e-9 && dist < 1e-9 && fixedSeg(i, s) && fixedSeg(j, t)) ff = true; }
            if (ff) kc.push_back("unifying_onto_overlapping_fixed_segments"); }
        for (int i = 0; i < k; i++) for (int j = i + 1; j < k; j++) {
            PolyLine r1 = cs[i]->route().simplify(), r2 = cs[j]->route().simplify();
            for (auto &s : segs(r1)) for (auto &t : segs(r2)) { double dist; double L = overlapLen(s, t, dist); if (L > 1e-9 && !s.end && !t.end && dist < 1e-9) share = true; }
            for (auto &s : segs(cs[i]->displayRoute())) for (auto &t : segs(cs[j]->displayRoute())) { double dist; double L = overlapLen(s, t, dist);
                if (L > 1e-9 && !s.end && !t.end && wide) {
                    if (dist < 1e-6) {
                        // class: shared-path nudging switched off and some connector's endpoint lies on the shared stretch
                        vector<string> kc2 = kc; bool horiz = s.y0 == s.y1; double lo = horiz ? max(min(s.x0, s.x1), min(t.x0, t.x1)) : max(min(s.y0, s.y1), min(t.y0, t.y1)), hi = horiz ? min(max(s.x0, s.x1), max(t.x0, t.x1)) : min(max(s.y0, s.y1), max(t.y0, t.y1));
                        bool epOn = false; for (auto cr : cs) for (int q = 0; q < 2; q++) { const PolyLine &dr = cr->displayRoute(); const Point &ep = q ? dr.ps[dr.size() - 1] : dr.ps[0]; if (horiz ? (fabs(ep.y - s.y0) < 1e-6 && ep.x >= lo - 1e-6 && ep.x <= hi + 1e-6) : (fabs(ep.x - s.x0) < 1e-6 && ep.y >= lo - 1e-6 && ep.y <= hi + 1e-6)) epOn = true; }
                        if (!((c.opts >> 3) & 1) && epOn) kc2.push_back("shared_path_nudging_off_and_endpoint_on_shared_stretch");
                        if ((c.opts & 1) && c.checkpoint) kc2.push_back("end_segment_nudging_with_checkpoint");
                        ctx.violation("shared_path_not_separated", kc2, desc, all); }
                    else if (dist < needSep - 1e-6 && dist < S * c.W) { // both inside the channel band?  only judge pairs that lie in the channel
                        bool inCh = (s.y0 == s.y1) && s.y0 > 2 * S - 1e-9 && s.y0 < (2 + c.W) * S + 1e-9 && t.y0 > 2 * S - 1e-9 && t.y0 < (2 + c.W) * S + 1e-9;
                        if (inCh) ctx.violation("separated_less_than_nudging_distance", kc, desc, mcx::fmt("distance %g < %g:", dist, needSep) + all); }
                } }
        }
        if (share) ctx.count("nontrivial");
        ctx.cls("display_bends_conn0", mcx::fmt("%zu", cs[0]->displayRoute().size() - 2));
        delete router;
    } catch (vpsc::CriticalFailure &f) { ctx.library_abort(f.what(), desc); }
#ifdef C10_ARENA
    if (c.heap) mcx::heap_end();
#endif
}
static void phase(int k, const Cfg &c) {
    vector<array<int, 4>> eps; for (int y0 = 0; y0 <= 4 + c.W; y0++) for (int y1 = 0; y1 <= 4 + c.W; y1++) eps.push_back({{0, y0, 4, y1}});
    ctx.phase(mcx::fmt("corridor W=%d k=%d connectors nd=%g options=%u checkpoint=%d", c.W, k, c.nd, c.opts, c.checkpoint));
    vector<int> idx(k);
    function<void(int, int)> rec = [&](int pos, int start) {
        if (ctx.stopped()) return;
        if (pos == k) { for (int i = 0; i < k; i++) for (int j = i + 1; j < k; j++) { auto &A = eps[idx[i]], &B = eps[idx[j]]; if (A[1] == B[1] || A[3] == B[3]) return; }
            if (!ctx.next()) return; vector<array<int, 4>> E; for (int i : idx) E.push_back(eps[i]);
            // no two connectors share a column, so their (fixed) end segments never overlap and no shared path ends at an endpoint
            for (int i = 0; i < k; i++) { E[i][0] = -i; E[i][2] = 4 + i; } ctx.count("states"); ctx.sample(mcx::fmt("(0,%d)->(4,%d) ...", E[0][1], E[0][3]), 1); run_case(E, c); ctx.done_case(); return; }
        for (int i = start; i < (int)eps.size(); i++) { idx[pos] = i; rec(pos + 1, i + 1); }
    };
    rec(0, 0);
}

// ---- second scene family: pillars --------------------------------------------------------------------------------
// A row of P pillars (2 cells wide, 2 cells apart, tops on one line y = 5 cells, open space above).  Connector alphabet -- every type puts a
// horizontal segment ON the line of the tops:  hop(i,j) leaves the gap before pillar i, runs over pillars i..j and comes down in the gap after j
// (a shiftable middle segment, free to move up);  L(a,b) starts ON the line in gap a and runs along it to gap b, then turns down (a FIXED first
// segment);  I(a,b) is the straight connector along the line from gap a to gap b (one fixed segment).  Every ordered k-tuple of types (the order
// is the creation order, which decides the order of the segment list the nudging code scans); the c-th connector is shifted by (c-1)/4 cell so
// that no two connectors share an endpoint or a vertical segment.  The channel above the tops is unbounded, so a shiftable segment can always
// be separated from whatever it overlaps: a collinear overlapping pair of different connectors is a violation unless BOTH segments are fixed.
struct PConn { int type, a, b; };   // type 0 hop, 1 L, 2 I
static string pstr(const PConn &c) { return mcx::fmt("%s(%d,%d)", c.type == 0 ? "hop" : c.type == 1 ? "L" : "I", c.a, c.b); }
static void run_pillars(int P, const vector<PConn> &C, const Cfg &c) {
    int k = C.size(); vector<string> kc; if (c.opts & 1) kc.push_back("option_nudgeOrthogonalSegmentsConnectedToShapes");
    string desc = mcx::fmt("pillars P=%d idealNudgingDistance=%g options=%u conns (creation order):", P, c.nd, c.opts); for (auto &q : C) desc += " " + pstr(q);
    ctx.announce(desc); ctx.count("transitions"); ctx.count("evaluations");
    try {
        Router *router = new Router(OrthogonalRouting); router->setRoutingParameter(segmentPenalty, 50); router->setRoutingParameter(idealNudgingDistance, c.nd);
        for (int o = 0; o < 4; o++) router->setRoutingOption(OPTS[o], (c.opts >> o) & 1);
        for (int i = 0; i < P; i++) { Rectangle r(Point((4 * i + 1) * S, 5 * S), Point((4 * i + 3) * S, 14 * S)); new ShapeRef(router, r); }
        vector<ConnRef *> cs; vector<array<double, 4>> E;
        for (int q = 0; q < k; q++) { double dx = (q - 1) * S / 4.0, x0, y0, x1, y1;
            if (C[q].type == 0) { x0 = 4 * C[q].a * S + dx; y0 = 8 * S; x1 = (4 * C[q].b + 4) * S + dx; y1 = 8 * S; }
            else if (C[q].type == 1) { x0 = 4 * C[q].a * S + dx; y0 = 5 * S; x1 = 4 * C[q].b * S + dx; y1 = 8 * S; }
            else { x0 = 4 * C[q].a * S + dx; y0 = 5 * S; x1 = 4 * C[q].b * S + dx; y1 = 5 * S; }
            E.push_back({{x0, y0, x1, y1}}); cs.push_back(new ConnRef(router, ConnEnd(Point(x0, y0)), ConnEnd(Point(x1, y1)))); }
        router->processTransaction();
        string all; for (int i = 0; i < k; i++) all += " [" + rstr(cs[i]->displayRoute()) + "]";
        bool share = false, fixedPair = false;
        for (int i = 0; i < k; i++) {
            const PolyLine &d = cs[i]->displayRoute(); PolyLine r = cs[i]->route().simplify();
            if (d.size() < 2 || d.ps[0].x != E[i][0] || d.ps[0].y != E[i][1] || d.ps[d.size() - 1].x != E[i][2] || d.ps[d.size() - 1].y != E[i][3]) ctx.violation("endpoint_moved", kc, desc, all);
            if (d.size() > r.size()) ctx.violation("segments_added", {}, desc, mcx::fmt("conn %d raw %s display %s", i, rstr(r).c_str(), rstr(d).c_str()));
            for (size_t q = 1; q < d.size(); q++) if (d.ps[q].x != d.ps[q - 1].x && d.ps[q].y != d.ps[q - 1].y) ctx.violation("not_orthogonal_after_nudging", {}, desc, all);
        }
        // two FIXED segments of different connectors collinear and overlapping (before nudging): the separation problem of the region has no solution
        for (int i = 0; i < k; i++) for (int j = i + 1; j < k; j++) for (auto &s2 : segs(cs[i]->route().simplify())) for (auto &t : segs(cs[j]->route().simplify())) { double dist; double L = overlapLen(s2, t, dist); if (L > 1e-9 && dist < 1e-9) { share = true; if (s2.end && t.end) fixedPair = true; } }
        if (fixedPair) kc.push_back("two_fixed_segments_collinear_and_overlapping");
        for (int i = 0; i < k; i++) for (int j = i + 1; j < k; j++)
            for (auto &s2 : segs(cs[i]->displayRoute())) for (auto &t : segs(cs[j]->displayRoute())) { double dist; double L = overlapLen(s2, t, dist); if (L <= 1e-9) continue;
                if (s2.end && t.end && !(c.opts & 1)) { if (dist < 1e-6) ctx.count("both_fixed_not_judged"); continue; }
                if (dist < 1e-6) { vector<string> kc2 = kc;   // class of KF-C10-2 (same definition as in the corridor family): shared-path nudging off and some connector's endpoint on the shared stretch
                    bool horiz = s2.y0 == s2.y1; double lo = horiz ? max(min(s2.x0, s2.x1), min(t.x0, t.x1)) : max(min(s2.y0, s2.y1), min(t.y0, t.y1)), hi = horiz ? min(max(s2.x0, s2.x1), max(t.x0, t.x1)) : min(max(s2.y0, s2.y1), max(t.y0, t.y1));
                    bool epOn = false; for (auto cr : cs) for (int q = 0; q < 2; q++) { const PolyLine &dr = cr->displayRoute(); const Point &ep = q ? dr.ps[dr.size() - 1] : dr.ps[0]; if (horiz ? (fabs(ep.y - s2.y0) < 1e-6 && ep.x >= lo - 1e-6 && ep.x <= hi + 1e-6) : (fabs(ep.x - s2.x0) < 1e-6 && ep.y >= lo - 1e-6 && ep.y <= hi + 1e-6)) epOn = true; }
                    // ... or each of the two segments is held in place that way by some other segment (the rule ties a segment to the one it shares such a stretch
                    // with, so two segments that are each tied to a fixed one -- or are fixed themselves -- stay on one line)
                    auto held = [&](int ci, const Seg &a) { for (int u = 0; u < k; u++) if (u != ci) for (auto &w : segs(cs[u]->displayRoute())) { double d2; double L2 = overlapLen(a, w, d2); if (L2 <= 1e-9 || d2 > 1e-6) continue;
                            bool hz = a.y0 == a.y1; double l2 = hz ? max(min(a.x0, a.x1), min(w.x0, w.x1)) : max(min(a.y0, a.y1), min(w.y0, w.y1)), h2 = hz ? min(max(a.x0, a.x1), max(w.x0, w.x1)) : min(max(a.y0, a.y1), max(w.y0, w.y1));
                            for (auto cr : cs) for (int q = 0; q < 2; q++) { const PolyLine &dr = cr->displayRoute(); const Point &ep = q ? dr.ps[dr.size() - 1] : dr.ps[0]; if (hz ? (fabs(ep.y - a.y0) < 1e-6 && ep.x >= l2 - 1e-6 && ep.x <= h2 + 1e-6) : (fabs(ep.x - a.x0) < 1e-6 && ep.y >= l2 - 1e-6 && ep.y <= h2 + 1e-6)) return true; } }
                        return false; };
                    // ... or anywhere in the nudging region of the pair (the segments on this line connected to it through overlaps): one tied pair the solver cannot
                    // order makes the whole region's separation problem fail, and then nothing in the region is moved (the all-or-nothing behaviour of KF-C10-3/4)
                    bool regionHasTie = false;
                    { struct RS { int ci; Seg g; }; vector<RS> reg, all2; for (int u = 0; u < k; u++) for (auto &w : segs(cs[u]->displayRoute())) { double d2; overlapLen(s2, w, d2); if (d2 < 1e-6) all2.push_back({u, w}); }   // every segment on the pair's line
                      vector<char> in(all2.size(), 0); for (size_t q = 0; q < all2.size(); q++) { double d2; if (overlapLen(s2, all2[q].g, d2) > 1e-9 || overlapLen(t, all2[q].g, d2) > 1e-9) in[q] = 1; }
                      for (bool ch = true; ch;) { ch = false; for (size_t q = 0; q < all2.size(); q++) if (!in[q]) for (size_t r2 = 0; r2 < all2.size(); r2++) if (in[r2]) { double d2; if (overlapLen(all2[q].g, all2[r2].g, d2) > 1e-9) { in[q] = 1; ch = true; break; } } }
                      for (size_t q = 0; q < all2.size() && !regionHasTie; q++) if (in[q]) if (held(all2[q].ci, all2[q].g)) regionHasTie = true; }
                    if (!((c.opts >> 3) & 1) && (epOn || ((held(i, s2) || s2.end) && (held(j, t) || t.end)) || regionHasTie)) kc2.push_back("shared_path_nudging_off_and_endpoint_on_shared_stretch");
                    ctx.violation("shared_path_not_separated", kc2, desc, all); }
                else if (dist < c.nd / 10 - 1e-6 && s2.y0 == s2.y1 && fabs(min(s2.y0, t.y0) - 5 * S) < 3 * c.nd + 1e-6) ctx.violation("separated_less_than_nudging_distance", kc, desc, mcx::fmt("distance %g < %g:", dist, c.nd / 10) + all); }
        if (share) ctx.count("nontrivial");
        ctx.cls("pillars_display_bends_conn0", mcx::fmt("%zu", cs[0]->displayRoute().size() - 2));
        delete router;
    } catch (vpsc::CriticalFailure &f) { ctx.library_abort(f.what(), desc); }
}
static void pillar_phase(int P, int k, const Cfg &c) {
    vector<PConn> al; for (int i = 0; i < P; i++) for (int j = i; j < P; j++) al.push_back({0, i, j});
    for (int t = 1; t <= 2; t++) for (int a = 0; a <= P; a++) for (int b = a + 1; b <= P; b++) al.push_back({t, a, b});
    ctx.phase(mcx::fmt("pillars P=%d: every ordered %d-tuple of %zu connector types (hops over pillars i..j, L and I connectors along the line of the tops) nd=%g options=%u", P, k, al.size(), c.nd, c.opts));
    vector<int> idx(k, 0);
    do { if (ctx.stopped()) return; if (!ctx.next()) continue; vector<PConn> C; for (int i : idx) C.push_back(al[i]); ctx.count("states"); ctx.sample(pstr(C[0]) + " " + pstr(C[1]) + " ...", 1); run_pillars(P, C, c); ctx.done_case(); } while (mcx::odo_next(idx, (int)al.size()));
}
// Witness scenes (author's inputs of the seeded change 'point orders not cleared between the x and y passes'; no enumerated family here produces the
// ingredient -- the x pass moving the verticals at BOTH ends of a shared horizontal stretch so that the end where the two connectors split in opposite
// directions changes sides).  Each scene in the four frames that keep the axes (identity, the two mirrors, the half turn: the x pass runs before the y
// pass, so a quarter turn is a different input).  The corridors are many times wider than the nudging distance; the clause is the property's first
// sentence read directly: no two connectors without a common endpoint run collinear and overlapping over a positive length; endpoints unmoved.
struct WConn { double x0, y0; unsigned d0; double x1, y1; unsigned d1; };
struct WScene { const char *name; bool unifying; vector<array<double, 4>> shapes; vector<WConn> conns; };
static unsigned wdir(int k, unsigned d) { if (d == ConnDirAll || d == ConnDirNone) return d; unsigned r = 0; if (d & ConnDirUp) r |= (k & 2) ? ConnDirDown : ConnDirUp; if (d & ConnDirDown) r |= (k & 2) ? ConnDirUp : ConnDirDown; if (d & ConnDirLeft) r |= (k & 1) ? ConnDirRight : ConnDirLeft; if (d & ConnDirRight) r |= (k & 1) ? ConnDirLeft : ConnDirRight; return r; }
static void witness_phase() {
    static const vector<WScene> W = {
        {"A", false, {{{140, 25, 160, 75}}, {{140, 140, 160, 200}}, {{240, 70, 260, 90}}, {{240, 175, 260, 225}}, {{40, 150, 60, 210}}}, {{240, 80, ConnDirLeft, 140, 170, ConnDirLeft}, {75, 65, ConnDirRight, 240, 195, ConnDirLeft}}},
        {"B", true, {{{35, 390, 85, 430}}, {{125, 35, 155, 65}}, {{110, 275, 170, 345}}}, {{40, 335, ConnDirDown, 140, 65, ConnDirDown}, {75, 40, ConnDirRight, 170, 310, ConnDirRight}, {135, 65, ConnDirDown, 140, 310, ConnDirAll}}}};
    ctx.phase("witness scenes (two / three connectors round 3-5 shapes, direction-restricted ends, buffer 8, nudging distance 6) in the four axis-preserving frames");
    for (size_t w = 0; w < W.size(); w++) for (int k = 0; k < 4; k++) { if (!ctx.next()) continue; ctx.count("states"); ctx.count("nontrivial"); ctx.count("evaluations"); ctx.count("transitions");
        string desc = mcx::fmt("witness scene %s frame %s", W[w].name, k == 0 ? "as given" : k == 1 ? "mirrored in x" : k == 2 ? "mirrored in y" : "half turn"); ctx.sample(desc, 1); ctx.announce(desc);
        auto fx = [&](double x) { return (k & 1) ? 500 - x : x; }; auto fy = [&](double y) { return (k & 2) ? 500 - y : y; };
        try { Router *r = new Router(OrthogonalRouting); r->setRoutingParameter(segmentPenalty, 50); r->setRoutingParameter(idealNudgingDistance, 6); r->setRoutingParameter(shapeBufferDistance, 8); r->setRoutingOption(performUnifyingNudgingPreprocessingStep, W[w].unifying);
            for (auto &sh : W[w].shapes) { Rectangle rc(Point(min(fx(sh[0]), fx(sh[2])), min(fy(sh[1]), fy(sh[3]))), Point(max(fx(sh[0]), fx(sh[2])), max(fy(sh[1]), fy(sh[3])))); new ShapeRef(r, rc); }
            vector<ConnRef *> cs; for (auto &c : W[w].conns) cs.push_back(new ConnRef(r, ConnEnd(Point(fx(c.x0), fy(c.y0)), (ConnDirFlags)wdir(k, c.d0)), ConnEnd(Point(fx(c.x1), fy(c.y1)), (ConnDirFlags)wdir(k, c.d1))));
            r->processTransaction();
            for (size_t a = 0; a < cs.size(); a++) { const PolyLine &da = cs[a]->displayRoute(); const WConn &ca = W[w].conns[a];
                if (da.size() < 2 || da.ps[0].x != fx(ca.x0) || da.ps[0].y != fy(ca.y0) || da.ps[da.size() - 1].x != fx(ca.x1) || da.ps[da.size() - 1].y != fy(ca.y1)) ctx.violation("endpoint_moved", {"witness"}, desc, rstr(da));
                for (size_t b = a + 1; b < cs.size(); b++) { const WConn &cb = W[w].conns[b]; bool common = (ca.x0 == cb.x0 && ca.y0 == cb.y0) || (ca.x0 == cb.x1 && ca.y0 == cb.y1) || (ca.x1 == cb.x0 && ca.y1 == cb.y0) || (ca.x1 == cb.x1 && ca.y1 == cb.y1); if (common) continue;
                    for (auto &sa : segs(da)) for (auto &sb : segs(cs[b]->displayRoute())) { double dist; double ol = overlapLen(sa, sb, dist); if (ol > 1e-6 && dist < 1e-9) { ctx.violation("shared_path_not_separated", {"witness"}, desc, mcx::fmt("connectors %zu and %zu overlap over %g: ", a, b, ol) + rstr(da) + " | " + rstr(cs[b]->displayRoute())); goto done; } } } }
            done: delete r;
        } catch (vpsc::CriticalFailure &f) { ctx.library_abort(f.what(), desc); }
        ctx.done_case(); }
}
// Several checkpoints strictly inside ONE straight segment.  Two walls leave a vertical corridor x in [8,12] cells; connector A runs from the left above the
// walls to the right below them (a Z: along its row, down the corridor, along the target's row), with two checkpoints on its first row, the second one inside the
// corridor's x-range: the vertical run may not be moved to the left of the LAST checkpoint.  Optionally a second connector B through the same corridor (either creation
// order), the target entered from the left or freely, A also reversed (the checkpoints then lie on its last segment).  Clause: "never moves a checkpoint off its route"
// (and the endpoints stay).
static void two_checkpoints_phase(double nd) {
    ctx.phase(mcx::fmt("two checkpoints inside one segment before a vertical corridor, nd=%g: checkpoint positions x second connector x creation order x target direction x reversed", nd));
    static const double C1[3] = {2, 5, 8.5}, C2[5] = {8.5, 9, 10, 11, 11.5};
    for (double c1 : C1) for (double c2 : C2) for (int withB = 0; withB < 3; withB++) for (int dl = 0; dl < 2; dl++) for (int rev = 0; rev < 2; rev++) for (int ya = 3; ya <= 5; ya += 2) { if (!(c1 < c2)) continue; if (!ctx.next()) continue;
        ctx.count("states"); ctx.count("nontrivial"); ctx.count("evaluations"); ctx.count("transitions");
        string desc = mcx::fmt("two checkpoints (%g,%d) (%g,%d) cells on connector A (0,%d)->(20,15)%s, corridor x in [8,12] between walls y in [7,13], nd=%g, %s, target entered %s", c1, ya, c2, ya, ya, rev ? " created reversed" : "", nd, withB == 0 ? "A alone" : withB == 1 ? "B (0,1)->(20,17) created after A" : "B created before A", dl ? "from the left" : "freely");
        ctx.sample(desc, 1); ctx.announce(desc);
        try { Router *r = new Router(OrthogonalRouting); r->setRoutingParameter(segmentPenalty, 50); r->setRoutingParameter(idealNudgingDistance, nd);
            Rectangle lw(Point(-5 * S, 7 * S), Point(8 * S, 13 * S)), rw(Point(12 * S, 7 * S), Point(25 * S, 13 * S)); new ShapeRef(r, lw); new ShapeRef(r, rw);
            Point a0(0, ya * S), a1(20 * S, 15 * S); ConnRef *A = nullptr, *B = nullptr; ConnDirFlags dd = dl ? (ConnDirFlags)ConnDirLeft : (ConnDirFlags)ConnDirAll;
            auto mkA = [&] { A = rev ? new ConnRef(r, ConnEnd(a1, dd), ConnEnd(a0)) : new ConnRef(r, ConnEnd(a0), ConnEnd(a1, dd)); vector<Checkpoint> v; if (rev) { v.push_back(Checkpoint(Point(c2 * S, ya * S))); v.push_back(Checkpoint(Point(c1 * S, ya * S))); } else { v.push_back(Checkpoint(Point(c1 * S, ya * S))); v.push_back(Checkpoint(Point(c2 * S, ya * S))); } A->setRoutingCheckpoints(v); };
            auto mkB = [&] { B = new ConnRef(r, ConnEnd(Point(0, 1 * S)), ConnEnd(Point(20 * S, 17 * S), dd)); };
            if (withB == 2) mkB(); mkA(); if (withB == 1) mkB();
            r->processTransaction();
            const PolyLine &d = A->displayRoute(); Point s0 = rev ? a1 : a0, s1 = rev ? a0 : a1;
            if (d.size() < 2 || d.ps[0].x != s0.x || d.ps[0].y != s0.y || d.ps[d.size() - 1].x != s1.x || d.ps[d.size() - 1].y != s1.y) ctx.violation("endpoint_moved", {"two_checkpoints"}, desc, rstr(d));
            for (double cx : {c1, c2}) if (!onRoute(d, Point(cx * S, ya * S))) { ctx.violation("checkpoint_off_route", (withB && !rev) ? vector<string>{"two_checkpoints", "second_connector_shares_the_corridor_with_the_checkpointed_one"} : vector<string>{"two_checkpoints"}, desc, mcx::fmt("checkpoint (%g,%g) route %s", cx * S, (double)ya * S, rstr(d).c_str()) + (B ? " | B " + rstr(B->displayRoute()) : string())); break; }
            delete r;
        } catch (vpsc::CriticalFailure &f) { ctx.library_abort(f.what(), desc); }
        ctx.done_case(); }
}
int main(int argc, char **argv) {
    ctx.init(argc, argv);
    bool T = ctx.thorough();
    witness_phase();
    for (double nd2 : {4.0, 10.0}) two_checkpoints_phase(nd2);
    for (double nd : {1.0, 4.0, 12.0}) for (unsigned o = 0; o < 16; o++) { phase(2, {nd, 1, o, 0, false}); phase(3, {nd, 1, o, 0, false}); phase(2, {nd, 2, o, 0, false}); phase(2, {nd, 1, o, 0, true}); }
    for (double nd : {4.0, 12.0}) for (unsigned o : {0u, 2u, 15u}) { phase(3, {nd, 2, o, 0, false}); phase(3, {nd, 1, o, 0, true}); }
    phase(4, {4, 1, 2, 0, false}); phase(4, {4, 2, 15, 0, false});
    for (unsigned o = 0; o < 16; o++) { pillar_phase(2, 2, {4, 0, o, 0, false}); pillar_phase(3, 3, {4, 0, o, 0, false}); }
    for (double nd : {1.0, 12.0}) for (unsigned o = 0; o < 16; o++) { pillar_phase(3, 3, {nd, 0, o, 0, false}); if (T) pillar_phase(4, 3, {nd, 0, o, 0, false}); }
    if (T) for (unsigned o : {0u, 8u, 15u}) pillar_phase(3, 4, {4, 0, o, 0, false});
    if (T) { for (double nd : {1.0, 4.0, 12.0}) for (unsigned o = 0; o < 16; o++) { phase(3, {nd, 2, o, 0, false}); phase(3, {nd, 1, o, 0, true}); phase(2, {nd, 3, o, 0, false}); phase(2, {nd, 2, o, 0, true}); }
             for (double nd : {1.0, 4.0, 12.0}) for (unsigned o : {0u, 2u, 8u, 15u}) { phase(4, {nd, 1, o, 0, false}); phase(4, {nd, 2, o, 0, false}); phase(3, {nd, 3, o, 0, false}); phase(3, {nd, 2, o, 0, true}); } }
    return ctx.finish();
}
