// C15 (engine 1c): every legal history (to a depth bound) of libdialect Graph API calls on ONE Graph, ending with the destruction of
// the graph and of every handle the caller holds, in the sanitised build.  Oracle: no ASan/UBSan report, no failed internal assertion,
// termination, and the live-allocation count back to its value from before the graph was created (shared_ptr cycles leak).
#include "libdialect/libdialect.h"
#include "libdialect/graphs.h"
#include "libdialect/constraints.h"
#include "libdialect/opts.h"
#include "libdialect/io.h"
#include <string>
#include <vector>
#include "mcx/mcx.h"
#include "mcx/arena.h"
using namespace dialect; using namespace std;
static mcx::Ctx ctx;
enum { ADD_NODE, ADD_EDGE_A, ADD_EDGE_B, ADD_EDGE_C, SEVER_EDGE, SEVER_NODE0, SEVER_REMOVE_LAST, CLONE_NODE0, COPY_GRAPH, CONN_COMPS, CHAINS, DESTRESS, ROUTE_ORTHO, ROUTE_POLY, CLEAR_ROUTES, WRITE_TGLF, REREAD_TGLF,
       ROT90, TRANSLATE, PAD, PUSH_POS, POP_POS, ADD_SEP, CLEAR_SEPS, BBOX_IEL, NOPS };
static const char *NAMES[] = {"addNode", "addEdge(0,1)", "addEdge(1,2)", "addEdge(0,2)", "severEdge(first)", "severNode(0)", "severAndRemoveNode(last)", "cloneNode(0)", "Graph copy", "getConnComps", "getChainsAndCycles", "destress",
                              "route(orthogonal)", "route(polyline)", "clearAllRoutes", "writeTglf", "buildGraphFromTglf(writeTglf)", "rotate90cw", "translate", "padAllNodes", "pushNodePositions", "popNodePositions", "addSep(0,1)", "clearAllConstraints", "getBoundingBox+getIEL"};
static long run_seq(const vector<int> &ops, bool &legal, string &assertion) {
    long before = mcx::heap_live_system(); legal = true; assertion.clear();
    try {
        Graph g; vector<Node_SP> ns; vector<Edge_SP> es; int pushed = 0; static const double PX[4] = {0, 60, 10, 70}, PY[4] = {0, 5, 50, 60};
        auto haveEdge = [&](int a, int b) { for (auto &e : es) { auto en = e->getEndIds(); if ((en.first == ns[a]->id() && en.second == ns[b]->id()) || (en.first == ns[b]->id() && en.second == ns[a]->id())) return true; } return false; };
        for (int o : ops) {
            switch (o) {
            case ADD_NODE: if (ns.size() >= 4) legal = false; else ns.push_back(g.addNode(PX[ns.size()], PY[ns.size()], 20 + 10 * (ns.size() % 2), 20)); break;
            case ADD_EDGE_A: case ADD_EDGE_B: case ADD_EDGE_C: { int a = o == ADD_EDGE_B ? 1 : 0, b = o == ADD_EDGE_A ? 1 : 2; if ((int)ns.size() <= b || haveEdge(a, b)) legal = false; else es.push_back(g.addEdge(ns[a], ns[b])); break; }
            case SEVER_EDGE: if (es.empty()) legal = false; else { g.severEdge(*es.front()); es.erase(es.begin()); } break;
            case SEVER_NODE0: if (ns.empty()) legal = false; else { g.severNode(*ns[0]); vector<Edge_SP> keep; for (auto &e : es) { auto en = e->getEndIds(); if (en.first != ns[0]->id() && en.second != ns[0]->id()) keep.push_back(e); } es = keep; } break;
            case SEVER_REMOVE_LAST: if (ns.empty()) legal = false; else { Node_SP v = ns.back(); g.severAndRemoveNode(*v); vector<Edge_SP> keep; for (auto &e : es) { auto en = e->getEndIds(); if (en.first != v->id() && en.second != v->id()) keep.push_back(e); } es = keep; ns.pop_back(); } break;
            case CLONE_NODE0: if (ns.empty() || ns[0]->getDegree() < 2 || ns.size() >= 4) legal = false; else { Nodes cl = g.cloneNode(ns[0]->id()); (void)cl; legal = legal && true; /* handles to clones are dropped: the graph owns them */ es.clear(); for (auto &p : g.getEdgeLookup()) es.push_back(p.second); } break;
            case COPY_GRAPH: { Graph h(g); (void)h.getNumNodes(); break; }
            case CONN_COMPS: { vector<Graph_SP> cc = g.getConnComps(); (void)cc.size(); break; }
            case CHAINS: { vector<deque<Node_SP>> ch, cy; g.getChainsAndCycles(ch, cy); break; }
            case DESTRESS: if (ns.size() < 2) legal = false; else g.destress(); break;
            case ROUTE_ORTHO: if (ns.size() < 2 || es.empty()) legal = false; else g.route(Avoid::OrthogonalRouting); break;
            case ROUTE_POLY: if (ns.size() < 2 || es.empty()) legal = false; else g.route(Avoid::PolyLineRouting); break;
            case CLEAR_ROUTES: g.clearAllRoutes(); break;
            case WRITE_TGLF: { string t = g.writeTglf(); (void)t.size(); break; }
            case REREAD_TGLF: if (ns.empty()) legal = false; else { string t = g.writeTglf(); Graph_SP h = buildGraphFromTglf(t); (void)h->getNumEdges(); } break;
            case ROT90: g.rotate90cw(); break;
            case TRANSLATE: g.translate(3.5, -2); break;
            case PAD: g.padAllNodes(2, 3); break;
            case PUSH_POS: g.pushNodePositions(); pushed++; break;
            case POP_POS: if (!pushed) legal = false; else { g.popNodePositions(); pushed--; } break;
            case ADD_SEP: if (ns.size() < 2) legal = false; else g.getSepMatrix().addSep(ns[0]->id(), ns[1]->id(), GapType::BDRY, SepDir::EAST, SepType::INEQ, 10); break;
            case CLEAR_SEPS: g.clearAllConstraints(); break;
            case BBOX_IEL: if (ns.empty()) legal = false; else { BoundingBox b = g.getBoundingBox(); (void)b.w(); (void)g.getIEL(); } break;
            }
            if (!legal) break;
        }
    } catch (vpsc::CriticalFailure &f) { assertion = f.what(); } catch (std::exception &ex) { assertion = string("ERROR: Critical assertion failed.\n  expression: unexpected exception: ") + ex.what() + "\n  at line 0 of libdialect\n  in: void history()\n"; }
    return mcx::heap_live_system() - before;
}
static void phase(int depth, int prefixNodes) {
    ctx.phase(mcx::fmt("Graph histories: %d x addNode, then every sequence of depth %d over %d operations (+ ~Graph and release of all handles)", prefixNodes, depth, (int)NOPS));
    vector<int> idx(depth, 0);
    do {
        if (ctx.stopped()) break;
        if (!ctx.next()) continue;
        vector<int> ops(prefixNodes, (int)ADD_NODE); for (int o : idx) ops.push_back(o);
        string desc = "dialect::Graph:"; for (int o : ops) desc += string(" ") + NAMES[o]; desc += " ~Graph";
        ctx.announce(desc);
        bool legal; string as; long d1 = run_seq(ops, legal, as);
        if (legal) {
            ctx.count("evaluations"); ctx.count("states"); ctx.count("transitions", (long)ops.size() + 1); ctx.sample(desc, 3); ctx.count("nontrivial");
            if (!as.empty()) ctx.library_abort(as, desc);
            else if (d1 > 0) { bool l2; string a2; long d2 = run_seq(ops, l2, a2); if (d2 > 0) ctx.raw_violation("leak", {"site:leak after ~Graph"}, desc, mcx::fmt("%ld allocations still live after the graph and all handles were released (repeatable)", d2)); }
        } else ctx.count("illegal_sequences_skipped");
        ctx.done_case();
    } while (mcx::odo_next(idx, NOPS));
}
int main(int argc, char **argv) {
    ctx.init(argc, argv); ctx.opt["c15"] = "1";
    bool T = ctx.thorough();
    { bool l; string a; run_seq({ADD_NODE, ADD_NODE, ADD_EDGE_A, DESTRESS, ROUTE_ORTHO, WRITE_TGLF}, l, a); }   // warm-up: lazily built statics
    for (int depth = 1; depth <= 3; depth++) phase(depth, 0);
    for (int depth = 1; depth <= 3; depth++) phase(depth, 3);
    if (T) { phase(4, 3); phase(4, 2); }
    return ctx.finish();
}
