// C09: removeoverlaps / generateXConstraints / generateYConstraints, exhaustively over every multiset of n
// grid rectangles x fixed subset x thirdPass x initial border.
#include <cstddef>
#include <libvpsc/rectangle.h>
#include <libvpsc/solve_VPSC.h>
#include <libvpsc/variable.h>
#include <libvpsc/constraint.h>
#include <libvpsc/assertions.h>
#include <libvpsc/exceptions.h>
#include <cmath>
#include <set>
#include <vector>
#include "mcx/mcx.h"
using namespace vpsc; using namespace std;
static mcx::Ctx ctx;
struct R { int x0, x1, y0, y1; };
static const int S = 10;
static string rstr(const vector<R> &in, unsigned fm, bool third, double border, double borderY = -1) {
    string s = "rects:"; for (auto &r : in) s += mcx::fmt(" [%d,%d]x[%d,%d]", r.x0, r.x1, r.y0, r.y1);
    return s + (borderY < 0 || borderY == border ? mcx::fmt(" fixedmask=%u thirdPass=%d border=%g", fm, third, border) : mcx::fmt(" fixedmask=%u thirdPass=%d xBorder=%g yBorder=%g", fm, third, border, borderY));
}
// feasibility of {x_l + gap <= x_r} with the variables in 'pin' held at pos[]: longest-path positive cycle test
static bool feasible_pinned(int n, const Constraints &cs, const set<unsigned> &pin, const vector<double> &pos) {
    struct E { int a, b; double w; }; vector<E> es; int root = n;
    for (auto c : cs) es.push_back({(int)c->left->id, (int)c->right->id, c->gap});
    for (unsigned f : pin) { es.push_back({root, (int)f, pos[f]}); es.push_back({(int)f, root, -pos[f]}); }
    vector<double> d(n + 1, 0);
    for (int it = 0; it <= n + 1; it++) { bool ch = false; for (auto &e : es) if (d[e.a] + e.w > d[e.b] + 1e-7) { d[e.b] = d[e.a] + e.w; ch = true; } if (!ch) return true; }
    return false;
}
// replica of the pass structure of removeoverlaps, only to classify the input: is some pass infeasible once the fixed
// rectangles are pinned where they are?  (class "fixed_wedge": weights are soft, so then fixed rectangles must move)
static bool wedge_class(const vector<R> &in, const set<unsigned> &fixed, bool third, double border) {
    int n = in.size(); Rectangles rs; for (auto &r : in) rs.push_back(new Rectangle(r.x0 * S, r.x1 * S, r.y0 * S, r.y1 * S));
    bool wedge = false; const double EX = 1e-3;
    Rectangle::setXBorder(border + EX); Rectangle::setYBorder(border + EX);
    Variables vs; for (int i = 0; i < n; i++) vs.push_back(new Variable(i, 0, fixed.count(i) ? 10000 : 1));
    vector<double> initX(n); for (int i = 0; i < n; i++) initX[i] = rs[i]->getCentreX();
    try {
        for (int pass = 0; pass < (third ? 3 : 2) && !wedge; pass++) {
            Constraints cs; vector<double> pos(n);
            if (pass == 0) { generateXConstraints(rs, vs, cs, true); }
            else if (pass == 1) { Rectangle::setXBorder(border); generateYConstraints(rs, vs, cs); }
            else { Rectangle::setYBorder(border); Rectangle::setXBorder(border + EX); for (int i = 0; i < n; i++) rs[i]->moveCentreX(initX[i]); generateXConstraints(rs, vs, cs, false); }
            for (int i = 0; i < n; i++) pos[i] = pass == 1 ? rs[i]->getCentreY() : rs[i]->getCentreX();
            if (!feasible_pinned(n, cs, fixed, pos)) wedge = true;
            else { Solver s(vs, cs); s.solve(); for (int i = 0; i < n; i++) { if (pass == 1) rs[i]->moveCentreY(vs[i]->finalPosition); else rs[i]->moveCentreX(vs[i]->finalPosition); } }
            for (auto c : cs) delete c;
        }
    } catch (...) {}
    Rectangle::setXBorder(0); Rectangle::setYBorder(0);
    for (auto v : vs) delete v; for (auto r : rs) delete r;
    return wedge;
}

// exact check of a generated constraint system for one axis: acyclic, and every pair overlapping in the other axis is
// separated by a directed path whose summed gaps reach the half-extent sum (necessary and sufficient)
static void check_generated(const vector<R> &in, int axis, bool neighbourLists) {
    int n = in.size(); Rectangles rs; for (auto &r : in) rs.push_back(new Rectangle(r.x0 * S, r.x1 * S, r.y0 * S, r.y1 * S));
    Variables vs; for (int i = 0; i < n; i++) vs.push_back(new Variable(i, 0, 1));
    Constraints cs; string desc = rstr(in, 0, false, 0) + (axis == 0 ? mcx::fmt(" generateXConstraints(neighbourLists=%d)", neighbourLists) : " generateYConstraints");
    try { if (axis == 0) generateXConstraints(rs, vs, cs, neighbourLists); else generateYConstraints(rs, vs, cs); }
    catch (CriticalFailure &f) { ctx.library_abort(f.what(), desc); for (auto v : vs) delete v; for (auto r : rs) delete r; return; }
    ctx.count("transitions");
    const double NEG = -1e300; vector<vector<double>> L(n, vector<double>(n, NEG));
    for (auto c : cs) { int a = c->left->id, b = c->right->id; L[a][b] = max(L[a][b], c->gap); if (c->gap < 0) ctx.violation("negative_gap", {}, desc); }
    for (int k = 0; k < n; k++) for (int i = 0; i < n; i++) for (int j = 0; j < n; j++) if (L[i][k] > NEG && L[k][j] > NEG) L[i][j] = max(L[i][j], L[i][k] + L[k][j]);
    bool cyc = false; for (int i = 0; i < n; i++) if (L[i][i] > NEG) cyc = true;
    if (cyc) ctx.violation("generated_cyclic", {}, desc);
    else if (!(axis == 0 && neighbourLists)) {
        for (int i = 0; i < n; i++) for (int j = i + 1; j < n; j++) {
            const R &a = in[i], &b = in[j];
            bool ovOther = axis == 0 ? (min(a.y1, b.y1) > max(a.y0, b.y0)) : (min(a.x1, b.x1) > max(a.x0, b.x0));
            if (!ovOther) continue;
            double need = axis == 0 ? ((a.x1 - a.x0) + (b.x1 - b.x0)) * S / 2.0 : ((a.y1 - a.y0) + (b.y1 - b.y0)) * S / 2.0;
            if (!(L[i][j] >= need - 1e-9 || L[j][i] >= need - 1e-9)) { ctx.violation("generated_not_separating", {}, desc, mcx::fmt("pair %d,%d needs %g has %g/%g", i, j, need, L[i][j], L[j][i])); break; }
        }
    }
    for (auto c : cs) delete c; for (auto v : vs) delete v; for (auto r : rs) delete r;
}

static void run(int n, int G) {
    vector<R> alpha; for (int x0 = 0; x0 < G; x0++) for (int x1 = x0 + 1; x1 <= G; x1++) for (int y0 = 0; y0 < G; y0++) for (int y1 = y0 + 1; y1 <= G; y1++) alpha.push_back({x0, x1, y0, y1});
    ctx.phase(mcx::fmt("n=%d rectangles on grid %d (alphabet %zu), all multisets x fixed subsets x thirdPass x border", n, G, alpha.size()));
    vector<int> idx(n, 0);
    do {
        if (!ctx.next()) continue;
        vector<R> in; for (int i : idx) in.push_back(alpha[i]);
        bool anyOv = false; for (int i = 0; i < n; i++) for (int j = i + 1; j < n; j++) if (min(in[i].x1, in[j].x1) > max(in[i].x0, in[j].x0) && min(in[i].y1, in[j].y1) > max(in[i].y0, in[j].y0)) anyOv = true;
        if (anyOv) ctx.count("nontrivial");
        ctx.count("states"); ctx.sample(rstr(in, 0, false, 0));
        check_generated(in, 0, false); check_generated(in, 0, true); check_generated(in, 1, false);
        for (unsigned fm = 0; fm < (1u << n); fm++) {
            set<unsigned> fixed; for (int i = 0; i < n; i++) if (fm >> i & 1) fixed.insert(i);
            bool pre = true; for (unsigned i : fixed) for (unsigned j : fixed) if (i < j) { const R &a = in[i], &b = in[j]; if (min(a.x1, b.x1) > max(a.x0, b.x0) && min(a.y1, b.y1) > max(a.y0, b.y0)) pre = false; }
            if (!pre) continue;
            static const double BORDERS[4][2] = {{0, 0}, {2, 2}, {4, 1}, {1, 4}};   // the global x and y borders need not be equal
            for (int third = 0; third < 2; third++) for (auto &bd : BORDERS) { double border = bd[0], borderY = bd[1];
                if ((border > 0 || borderY > 0) && fm != 0) continue;   // border sub-alphabet without fixed sets (keeps the product small)
                ctx.count("transitions"); ctx.count("evaluations");
                Rectangles rs; for (auto &r : in) rs.push_back(new Rectangle(r.x0 * S, r.x1 * S, r.y0 * S, r.y1 * S));
                Rectangle::setXBorder(border); Rectangle::setYBorder(borderY);
                vector<double> w0, h0, cx0, cy0; double avg = 0;
                for (auto r : rs) { w0.push_back(r->width()); h0.push_back(r->height()); cx0.push_back(r->getCentreX()); cy0.push_back(r->getCentreY()); avg += (r->width() + r->height()) / 2; } avg /= n;
                string desc = rstr(in, fm, third, border, borderY); bool threw = false; string what;
                try { removeoverlaps(rs, fixed, third); } catch (CriticalFailure &f) { threw = true; what = f.what(); ctx.library_abort(f.what(), desc); } catch (...) { threw = true; what = "exception"; }
                if (threw) ctx.count("threw");
                if (Rectangle::xBorder != border || Rectangle::yBorder != borderY) ctx.violation("border_not_restored", {threw ? "after_throw" : "normal_return"}, desc, mcx::fmt("xBorder=%g yBorder=%g %s", Rectangle::xBorder, Rectangle::yBorder, what.substr(0, 120).c_str()));
                Rectangle::setXBorder(border); Rectangle::setYBorder(borderY);
                // evaluate the oracle on whatever state was left behind, thrown or not
                bool ov = false; for (int i = 0; i < n && !ov; i++) for (int j = i + 1; j < n; j++) {
                    double ox = min(rs[i]->getMaxX(), rs[j]->getMaxX()) - max(rs[i]->getMinX(), rs[j]->getMinX()), oy = min(rs[i]->getMaxY(), rs[j]->getMaxY()) - max(rs[i]->getMinY(), rs[j]->getMinY());
                    if (ox > 1e-6 && oy > 1e-6) ov = true; }
                string out; for (auto r : rs) out += mcx::fmt(" [%g,%g]x[%g,%g]", r->getMinX(), r->getMaxX(), r->getMinY(), r->getMaxY());
                if (ov) ctx.violation("overlap_remains", {}, desc, out);
                for (int i = 0; i < n; i++) if (fabs(rs[i]->width() - w0[i]) > 1e-9 || fabs(rs[i]->height() - h0[i]) > 1e-9) { ctx.violation("size_changed", {}, desc, out); break; }
                for (auto r : rs) if (!(r->getMinX() == r->getMinX()) || std::isinf(r->getMinX()) || !(r->getMinY() == r->getMinY())) { ctx.violation("nonfinite", {}, desc, out); break; }
                bool moved = false; double mvmax = 0;
                for (unsigned i : fixed) { double mv = hypot(rs[i]->getCentreX() - cx0[i], rs[i]->getCentreY() - cy0[i]); mvmax = max(mvmax, mv); if (mv > 0.01 * avg) moved = true; }
                if (moved) { vector<string> kc; if (wedge_class(in, fixed, third, border)) kc.push_back("fixed_wedge"); ctx.violation("fixed_moved", kc, desc, mcx::fmt("moved %g (avg size %g) ->", mvmax, avg) + out); }
                Rectangle::setXBorder(0); Rectangle::setYBorder(0);
                for (auto r : rs) delete r;
            }
        }
        ctx.done_case();
    } while (mcx::multiset_next(idx, alpha.size()) && !ctx.stopped());
}

// "zero-area-thin rectangles": the thinnest rectangles the constructor accepts (one unit in the last place high or wide) and
// 1e-9-thin ones, mixed with ordinary grid rectangles.  Rounding in the passes can collapse such a rectangle to extent 0 or -1ulp.
struct RD { double x0, x1, y0, y1; const char *kind; };
static void run_thin(int n, int G) {
    vector<RD> alpha;
    for (int x0 = 0; x0 < G; x0++) for (int x1 = x0 + 1; x1 <= G; x1++) for (int y0 = 0; y0 < G; y0++) for (int y1 = y0 + 1; y1 <= G; y1++) alpha.push_back({(double)x0 * S, (double)x1 * S, (double)y0 * S, (double)y1 * S, "grid"});
    size_t nGrid = alpha.size();
    for (int a0 = 0; a0 < G; a0++) for (int a1 = a0 + 1; a1 <= G; a1++) for (int b = 0; b <= G; b++) for (int thin = 0; thin < 2; thin++) {
        double lo = b == 0 ? 1.0 : (double)b * S, hi = thin ? lo + 1e-9 : nextafter(lo, 1e9);   // (a rectangle at exactly 0 has a denormal extent: use 1.0 for the lowest line)
        alpha.push_back({(double)a0 * S, (double)a1 * S, lo, hi, thin ? "1e-9 high" : "1ulp high"}); alpha.push_back({lo, hi, (double)a0 * S, (double)a1 * S, thin ? "1e-9 wide" : "1ulp wide"}); }
    ctx.phase(mcx::fmt("n=%d rectangles, at least one of them 1ulp- or 1e-9-thin (alphabet: %zu grid-%d rectangles + %zu thin ones), all multisets x fixed subsets x thirdPass", n, nGrid, G, alpha.size() - nGrid));
    vector<int> idx(n, 0);
    do {
        bool anyThin = false; for (int i : idx) if ((size_t)i >= nGrid) anyThin = true; if (!anyThin) continue;
        if (!ctx.next()) continue;
        vector<RD> in; for (int i : idx) in.push_back(alpha[i]);
        string base = "rects:"; for (auto &r : in) base += mcx::fmt(" [%.17g,%.17g]x[%.17g,%.17g](%s)", r.x0, r.x1, r.y0, r.y1, r.kind);
        ctx.count("states"); ctx.count("nontrivial"); ctx.sample(base, 1);
        for (unsigned fm = 0; fm < (1u << n); fm++) {
            set<unsigned> fixed; for (int i = 0; i < n; i++) if (fm >> i & 1) fixed.insert(i);
            bool pre = true; for (unsigned i : fixed) for (unsigned j : fixed) if (i < j) { const RD &a = in[i], &b = in[j]; if (min(a.x1, b.x1) > max(a.x0, b.x0) && min(a.y1, b.y1) > max(a.y0, b.y0)) pre = false; }
            if (!pre) continue;
            for (int third = 0; third < 2; third++) {
                ctx.count("transitions"); ctx.count("evaluations");
                Rectangles rs; for (auto &r : in) rs.push_back(new Rectangle(r.x0, r.x1, r.y0, r.y1));
                Rectangle::setXBorder(0); Rectangle::setYBorder(0);
                vector<double> w0, h0; for (auto r : rs) { w0.push_back(r->width()); h0.push_back(r->height()); }
                string desc = base + mcx::fmt(" fixedmask=%u thirdPass=%d", fm, third); bool threw = false; string what;
                try { removeoverlaps(rs, fixed, third); } catch (CriticalFailure &f) { threw = true; what = f.what(); ctx.library_abort(f.what(), desc); } catch (...) { threw = true; what = "exception"; }
                if (threw) ctx.count("threw");
                if (Rectangle::xBorder != 0 || Rectangle::yBorder != 0) ctx.violation("border_not_restored", {threw ? "after_throw" : "normal_return", "thin"}, desc, mcx::fmt("xBorder=%g yBorder=%g %s", Rectangle::xBorder, Rectangle::yBorder, what.substr(0, 200).c_str()));
                Rectangle::setXBorder(0); Rectangle::setYBorder(0);
                bool ov = false; for (int i = 0; i < n && !ov; i++) for (int j = i + 1; j < n; j++) {
                    double ox = min(rs[i]->getMaxX(), rs[j]->getMaxX()) - max(rs[i]->getMinX(), rs[j]->getMinX()), oy = min(rs[i]->getMaxY(), rs[j]->getMaxY()) - max(rs[i]->getMinY(), rs[j]->getMinY());
                    if (ox > 1e-6 && oy > 1e-6) ov = true; }
                string out; for (auto r : rs) out += mcx::fmt(" [%g,%g]x[%g,%g]", r->getMinX(), r->getMaxX(), r->getMinY(), r->getMaxY());
                if (ov) ctx.violation("overlap_remains", {"thin"}, desc, out);
                for (int i = 0; i < n; i++) if (fabs(rs[i]->width() - w0[i]) > 1e-9 || fabs(rs[i]->height() - h0[i]) > 1e-9) { ctx.violation("size_changed", {"thin"}, desc, out); break; }
                for (auto r : rs) if (!(r->getMinX() == r->getMinX()) || std::isinf(r->getMinX()) || !(r->getMinY() == r->getMinY())) { ctx.violation("nonfinite", {"thin"}, desc, out); break; }
                for (auto r : rs) delete r;
            }
        }
        ctx.done_case();
    } while (mcx::multiset_next(idx, alpha.size()) && !ctx.stopped());
}
int main(int argc, char **argv) {
    ctx.init(argc, argv);
    run(1, 3); run(2, 3); run(3, 2); run(3, 3); run(4, 2); run(5, 2);
    run_thin(1, 2); run_thin(2, 2); run_thin(3, 2);
    if (ctx.thorough()) { run_thin(2, 3); run_thin(4, 1); run_thin(3, 3); run_thin(4, 2); run(2, 4); run(3, 4); run(4, 3); run(6, 2); run(7, 2); run(5, 3); run(2, 5); run(3, 5); }
    return ctx.finish();
}
