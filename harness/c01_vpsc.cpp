// C01 / C02: exhaustive small-scope exploration of the VPSC solvers (libvpsc static + incremental,
// libavoid's private incremental copy) against Bellman-Ford feasibility and an active-set QP oracle.
//   --prop C01 : satisfaction / finiteness / flagged <=> infeasible
//   --prop C02 : optimality of solve() + independence of variable and constraint order
#include <cstddef>
#include <cstdarg>
#include <functional>
#include <libvpsc/solve_VPSC.h>
#include <libvpsc/variable.h>
#include <libvpsc/constraint.h>
#include <libvpsc/exceptions.h>
#include <libvpsc/assertions.h>
#include <libavoid/vpsc.h>
#include <memory>
#include <type_traits>
#include "mcx/mcx.h"
#include "oracle/qp.h"
using namespace std;
using oracle::SepC;

static mcx::Ctx ctx;
static bool P1 = true;   // deciding C01 (else C02)

struct NSvpsc { typedef vpsc::Variable V; typedef vpsc::Constraint C; typedef vpsc::IncSolver Inc; typedef vpsc::Solver Stat;
    typedef vpsc::Variables Vs; typedef vpsc::Constraints Cs; static const char *name() { return "vpsc"; } };
struct NSavoid { typedef Avoid::Variable V; typedef Avoid::Constraint C; typedef Avoid::IncSolver Inc; typedef Avoid::IncSolver Stat;
    typedef Avoid::Variables Vs; typedef Avoid::Constraints Cs; static const char *name() { return "Avoid"; } };

struct Inst { int n; vector<double> d, w, sc; vector<SepC> cs; };

static string cstr(const SepC &c) { return mcx::fmt("%d+%g%s%d", c.l, c.gap, c.eq ? "==" : "<=", c.r); }
static string inst_str(const Inst &I) {
    string s = mcx::fmt("n=%d cs=[", I.n);
    for (auto &c : I.cs) s += cstr(c) + " ";
    s += "] d=["; for (double x : I.d) s += mcx::g(x) + " ";
    s += "] w=["; for (double x : I.w) s += mcx::g(x) + " ";
    s += "] scale=["; for (double x : I.sc) s += mcx::g(x) + " ";
    return s + "]";
}

struct Outcome { bool threw = false; string what; vector<double> x; vector<char> flag; bool anyFlag = false; };

// kind: 0 Inc.solve 1 Inc.satisfy 2 Static.solve 3 Static.satisfy
template <class NS> static Outcome run_instance(const Inst &I, int kind, const vector<int> *vperm = nullptr, const vector<int> *cperm = nullptr) {
    typename NS::Vs vs(I.n); typename NS::Cs vc;
    // vperm[i] = slot in the vector (and id) given to logical variable i
    vector<typename NS::V *> byLogical(I.n);
    for (int i = 0; i < I.n; i++) {
        int slot = vperm ? (*vperm)[i] : i;
        byLogical[i] = new typename NS::V(slot, I.d[i], I.w[i], I.sc[i]);
        vs[slot] = byLogical[i];
    }
    vector<typename NS::C *> byIdx(I.cs.size());
    for (size_t k = 0; k < I.cs.size(); k++) {
        size_t j = cperm ? (*cperm)[k] : k;
        byIdx[j] = new typename NS::C(byLogical[I.cs[j].l], byLogical[I.cs[j].r], I.cs[j].gap, I.cs[j].eq);
        vc.push_back(byIdx[j]);
    }
    Outcome o;
    try {
        if (kind < 2) { typename NS::Inc s(vs, vc); if (kind == 0) s.solve(); else s.satisfy(); }
        else { typename NS::Stat s(vs, vc); if (kind == 2) s.solve(); else s.satisfy(); }
    } catch (vpsc::UnsatisfiedConstraint &u) { o.threw = true; o.what = "UnsatisfiedConstraint"; }
    catch (vpsc::CriticalFailure &f) { o.threw = true; o.what = "assert " + f.what(); ctx.library_abort(f.what(), inst_str(I)); }
    catch (...) { o.threw = true; o.what = "other exception"; }
    for (int i = 0; i < I.n; i++) o.x.push_back(byLogical[i]->finalPosition);
    for (auto c : byIdx) { o.flag.push_back(c->unsatisfiable); o.anyFlag |= c->unsatisfiable; }
    for (auto c : vc) delete c;
    for (auto v : vs) delete v;
    return o;
}

static string xs(const vector<double> &x) { string s; for (double v : x) s += mcx::g(v) + " "; return s; }

// ---- oracle clauses for one returned outcome --------------------------------------
static void judge(const Inst &I, const Outcome &o, const string &who, bool staticSolver, bool isSolve, bool feas, bool cyc, bool anyEq,
                  const vector<double> *opt) {
    string desc = who + " " + inst_str(I);
    ctx.count("transitions");
    if (o.threw) {
        ctx.count("threw");
        if (!P1) return;
        if (staticSolver) { if (!cyc) ctx.violation("static_throw_on_dag", {}, desc, o.what); else ctx.count("static_throw_on_cycle"); }
        else ctx.violation("inc_throw", {}, desc, o.what);
        return;
    }
    if (P1) {
        bool finite = true;
        for (double v : o.x) if (!(v == v) || std::isinf(v)) finite = false;
        if (!finite) ctx.violation("nonfinite", {}, desc, "x=" + xs(o.x));
        for (size_t k = 0; k < I.cs.size(); k++) if (!o.flag[k]) {
            const SepC &c = I.cs[k];
            double s = I.sc[c.r] * o.x[c.r] - I.sc[c.l] * o.x[c.l] - c.gap;
            // known-finding class: the static Solver never looks at Constraint::equality
            vector<string> kc; if (staticSolver && c.eq && s > 0) kc.push_back("static_solver_equality");
            if (c.eq ? fabs(s) > 1e-6 : s < -1e-6) { ctx.violation("unsatisfied_constraint", kc, desc, cstr(c) + " slack=" + mcx::g(s) + " x=" + xs(o.x)); break; }
        }
        if (!anyEq && o.anyFlag != !feas)
            ctx.violation(o.anyFlag ? "flag_on_feasible" : "no_flag_on_infeasible", {}, desc, "x=" + xs(o.x));
    } else {
        if (!isSolve || o.anyFlag || !feas || !opt) return;
        if (staticSolver && anyEq) { ctx.count("skipped_static_with_equalities(C01 KF-C01-1)"); return; }
        double scale = 1; for (double v : I.d) scale = max(scale, fabs(v)); for (auto &c : I.cs) scale = max(scale, fabs(c.gap));
        double err = 0; for (int i = 0; i < I.n; i++) err = max(err, fabs((*opt)[i] - o.x[i]));
        ctx.count("optimality_checks");
        if (!(err <= 1e-5 * scale)) ctx.violation("not_optimal", {}, desc, "x=" + xs(o.x) + " optimum=" + xs(*opt) + " err=" + mcx::g(err));
    }
}

// ---- part A: instances ------------------------------------------------------------
static bool g_unitWeightsOnly = false;
static vector<double> g_gaps = {-1, 0, 2};   // gap alphabet of the instance phases ({-3, 0, 2}: feasible cycles with real slack -- a lower and an upper bound on one difference that are 3 apart)
static void instances(int n, int maxm, bool withEq, int scaleVariant, bool perms) {
    vector<double> dvals = {0, 1, 3}, gaps = g_gaps;
    vector<SepC> alphabet;
    for (int l = 0; l < n; l++) for (int r = 0; r < n; r++) if (l != r) for (double g : gaps) {
        alphabet.push_back({l, r, g, false}); if (withEq) alphabet.push_back({l, r, g, true}); }
    int A = alphabet.size();
    vector<double> sc(n, 1.0);
    if (scaleVariant == 1) { sc[0] = 2; if (n > 2) sc[2] = 0.5; }
    if (scaleVariant == 2) { sc[n - 1] = 4; if (n > 1) sc[0] = 0.5; }
    ctx.phase(mcx::fmt("instances n=%d m<=%d eq=%d scale=%d perms=%d%s", n, maxm, withEq, scaleVariant, perms, gaps[0] == -1 ? "" : mcx::fmt(" gaps {%g,%g,%g}", gaps[0], gaps[1], gaps[2]).c_str()));
    for (int m = 0; m <= maxm && !ctx.stopped(); m++) {
        if (n == 1 && m > 0) break;
        vector<int> idx(m, 0);
        do {
            Inst I; I.n = n; I.sc = sc;
            for (int i : idx) I.cs.push_back(alphabet[i]);
            bool anyEq = false; for (auto &c : I.cs) anyEq |= c.eq;
            bool feas = oracle::feasible_bf(n, I.cs), cyc = oracle::has_cycle(n, I.cs);
            vector<int> dsel(n, 0);
            do {
                for (unsigned wc = 0; wc < (1u << n); wc++) {
                    if (perms && wc != 0 && wc != 5u % (1u << n)) continue;
                    if (g_unitWeightsOnly && wc != 0) continue;
                    if (!ctx.next()) continue;
                    I.d.assign(n, 0); I.w.assign(n, 1);
                    for (int i = 0; i < n; i++) { I.d[i] = dvals[dsel[i]]; I.w[i] = (wc >> i & 1) ? 4 : 1; }
                    vector<double> opt; int nact = 0; bool haveOpt = false;
                    if (feas) haveOpt = oracle::qp_active_set(n, I.d, I.w, I.sc, I.cs, opt, &nact);
                    if (feas != haveOpt) { fprintf(stderr, "MCX-ABORT: oracles disagree on feasibility: %s\n", inst_str(I).c_str()); exit(3); }
                    if (!feas || nact > 0) ctx.count("nontrivial");
                    ctx.count("states");
                    ctx.cls("active_set_size", feas ? mcx::fmt("%d", nact) : "infeasible");
                    ctx.sample(inst_str(I));
                    if (!perms) {
                        for (int kind = 0; kind < 4; kind++) {
                            Outcome o = run_instance<NSvpsc>(I, kind);
                            judge(I, o, mcx::fmt("vpsc::%s.%s", kind < 2 ? "IncSolver" : "Solver", kind % 2 ? "satisfy" : "solve"), kind >= 2, kind % 2 == 0, feas, cyc, anyEq, haveOpt ? &opt : nullptr);
                        }
                        for (int kind = 0; kind < 2; kind++) {
                            Outcome o = run_instance<NSavoid>(I, kind);
                            judge(I, o, mcx::fmt("Avoid::IncSolver.%s", kind % 2 ? "satisfy" : "solve"), false, kind % 2 == 0, feas, cyc, anyEq, haveOpt ? &opt : nullptr);
                        }
                    } else if (feas && !P1) {
                        // order independence: every permutation of variable slots/ids and of constraint order
                        vector<int> vp(n); for (int i = 0; i < n; i++) vp[i] = i;
                        Outcome base[3]; bool haveBase = false;
                        do {
                            vector<int> cp(m); for (int i = 0; i < m; i++) cp[i] = i;
                            do {
                                for (int k = 0; k < 3; k++) {
                                    if (k == 1 && anyEq) continue;   // static Solver + equalities: KF-C01-1, reported under C01
                                    Outcome o = k == 0 ? run_instance<NSvpsc>(I, 0, &vp, &cp) : k == 1 ? run_instance<NSvpsc>(I, 2, &vp, &cp) : run_instance<NSavoid>(I, 0, &vp, &cp);
                                    ctx.count("transitions");
                                    if (o.threw || o.anyFlag) { if (k != 1) ctx.count("perm_skipped_flag_or_throw"); continue; }
                                    if (!haveBase || base[k].x.empty()) { base[k] = o; continue; }
                                    double err = 0; for (int i = 0; i < n; i++) err = max(err, fabs(o.x[i] - base[k].x[i]));
                                    ctx.count("order_checks");
                                    if (!(err <= 1e-9)) {
                                        string ps = "vperm="; for (int v : vp) ps += mcx::fmt("%d", v); ps += " cperm="; for (int v : cp) ps += mcx::fmt("%d", v);
                                        ctx.violation("order_dependent", {}, mcx::fmt("solver#%d ", k) + inst_str(I) + " " + ps, "x=" + xs(o.x) + " base=" + xs(base[k].x));
                                    }
                                }
                                haveBase = true;
                            } while (next_permutation(cp.begin(), cp.end()));
                        } while (next_permutation(vp.begin(), vp.end()));
                    }
                    ctx.done_case();
                }
            } while (mcx::odo_next(dsel, (int)dvals.size()));
        } while (!ctx.stopped() && m > 0 && mcx::multiset_next(idx, A));
    }
}

// ---- part A2: instance, solve, then move desired positions and re-solve on the SAME solver ------------------
// (the incremental use made by gradient projection and nudging: constraints fixed, desired positions change between solves)
// tiny: the desired positions are moved by +0.004 / -0.006 instead (a block then has to split although its most negative multiplier is only a few thousandths)
template <class NS> static void resolves(int n, int maxm, const vector<double> &gaps, int wmode, bool tiny = false) {
    vector<double> dvals = {0, 1, 3}, newd = {0, 12};
    vector<SepC> alphabet; for (int l = 0; l < n; l++) for (int r = 0; r < n; r++) if (l != r) for (double g : gaps) alphabet.push_back({l, r, g, false});
    int A = alphabet.size();
    ctx.phase(mcx::fmt("re-solves %s n=%d m<=%d gaps=%zu weights#%d: solve, then each desired[v]%s in turn, re-solve", NS::name(), n, maxm, gaps.size(), wmode, tiny ? " moved by +0.004 and then by -0.006" : ":=0|12"));
    for (int m = 1; m <= maxm && !ctx.stopped(); m++) {
        vector<int> idx(m, 0);
        do {
            Inst I; I.n = n; I.sc.assign(n, 1.0); for (int i : idx) I.cs.push_back(alphabet[i]);
            if (!oracle::feasible_bf(n, I.cs)) continue;
            vector<int> dsel(n, 0);
            do {
                for (int wc = 0; wc < (wmode == 0 ? 1 : n + 1); wc++) {
                    if (!ctx.next()) continue;
                    I.d.assign(n, 0); I.w.assign(n, 1); for (int i = 0; i < n; i++) I.d[i] = dvals[dsel[i]]; if (wc > 0) I.w[wc - 1] = (wmode == 1 ? 4 : 100);
                    ctx.count("states"); ctx.sample(inst_str(I), 1);
                    typename NS::Vs vs; typename NS::Cs vc; for (int i = 0; i < n; i++) vs.push_back(new typename NS::V(i, I.d[i], I.w[i], 1.0)); for (auto &c : I.cs) vc.push_back(new typename NS::C(vs[c.l], vs[c.r], c.gap, false));
                    string hist = string(NS::name()) + "::IncSolver " + inst_str(I) + " ops: solve"; bool nontriv = false;
                    try {
                        typename NS::Inc s(vs, vc); vector<double> d = I.d;
                        for (int step = 0; step <= 2 * n; step++) {
                            if (step > 0) { int v = (step - 1) / 2; double nv = tiny ? d[v] + ((step - 1) % 2 ? -0.006 : 0.004) : newd[(step - 1) % 2]; d[v] = nv; vs[v]->desiredPosition = nv; hist += mcx::fmt(" desired[%d]:=%g solve", v, nv); }
                            s.solve(); ctx.count("transitions");
                            bool any = false; for (auto c : vc) any |= c->unsatisfiable;
                            vector<double> x; for (auto v : vs) x.push_back(v->finalPosition);
                            if (P1) { for (size_t q = 0; q < vc.size(); q++) if (!vc[q]->unsatisfiable) { double sl = x[I.cs[q].r] - x[I.cs[q].l] - I.cs[q].gap; if (sl < -1e-6) { ctx.violation("unsatisfied_constraint", {}, hist, cstr(I.cs[q]) + " slack=" + mcx::g(sl)); break; } } if (any) ctx.violation("flag_on_feasible", {}, hist); }
                            else if (!any) { vector<double> best; int nact = 0; if (oracle::qp_active_set(n, d, I.w, I.sc, I.cs, best, &nact)) { if (nact > 0) nontriv = true; double err = 0; for (int i = 0; i < n; i++) err = max(err, fabs(best[i] - x[i])); ctx.count("optimality_checks"); if (!(err <= 1e-5 * 12)) { ctx.violation("not_optimal", {}, hist, "x=" + xs(x) + " optimum=" + xs(best)); break; } } }
                        }
                    } catch (vpsc::CriticalFailure &f) { ctx.library_abort(f.what(), hist); }
                    if (nontriv || P1) ctx.count("nontrivial");
                    for (auto c : vc) delete c; for (auto v : vs) delete v;
                    ctx.done_case();
                }
            } while (mcx::odo_next(dsel, (int)dvals.size()));
        } while (!ctx.stopped() && mcx::multiset_next(idx, A));
    }
}


// ---- part A3: instance, then new desired positions + addConstraint on the live solver, then re-solves ---------------------
// Values are decimal fractions (0.1, 0.2, 0.3): sums and differences carry rounding noise of the order 1e-17, so slacks that are
// "exactly zero" on paper come out as +-epsilon -- the window in which comparisons against 0 and against -1e-10 disagree.
template <class NS> static void addresolves(int n, int m0max, bool fullD0) {
    vector<double> dvals = {0, 0.1, 0.3, 50}, gaps = {0.1, 0.2}, newd = {-10, 50};
    vector<SepC> alphabet; for (int l = 0; l < n; l++) for (int r = 0; r < n; r++) if (l != r) for (double g : gaps) alphabet.push_back({l, r, g, false});
    int A = alphabet.size();
    ctx.phase(mcx::fmt("add+re-solves %s n=%d m0<=%d decimal values: solve; desired:=d1; addConstraint(c); solve; then each desired[v]:=-10|50 in turn, re-solve (d0 %s)", NS::name(), n, m0max, fullD0 ? "all" : "zero"));
    for (int m = 0; m <= m0max && !ctx.stopped(); m++) {
        vector<int> idx(m, 0);
        do {
            vector<SepC> cs0; for (int i : idx) cs0.push_back(alphabet[i]);
            if (!oracle::feasible_bf(n, cs0)) continue;
            for (int add = 0; add < A; add++) {
                vector<SepC> cs1 = cs0; cs1.push_back(alphabet[add]); if (!oracle::feasible_bf(n, cs1)) continue;
                vector<int> d0sel(n, 0);
                do { vector<int> d1sel(n, 0);
                do {
                    if (!ctx.next()) continue;
                    Inst I; I.n = n; I.sc.assign(n, 1.0); I.w.assign(n, 1.0); I.cs = cs0; I.d.assign(n, 0); for (int i = 0; i < n; i++) I.d[i] = dvals[d0sel[i]];
                    ctx.count("states"); ctx.sample(inst_str(I), 1);
                    typename NS::Vs vs; typename NS::Cs vc; for (int i = 0; i < n; i++) vs.push_back(new typename NS::V(i, I.d[i], 1.0, 1.0)); for (auto &c : I.cs) vc.push_back(new typename NS::C(vs[c.l], vs[c.r], c.gap, false));
                    string hist = string(NS::name()) + "::IncSolver " + inst_str(I) + " ops: solve"; bool nontriv = false; vector<SepC> cs = cs0; vector<double> d = I.d;
                    auto judge1 = [&]() {
                        ctx.count("transitions"); bool any = false; for (auto c : vc) any |= c->unsatisfiable;
                        vector<double> x; for (auto v : vs) x.push_back(v->finalPosition);
                        if (P1) { for (size_t q = 0; q < vc.size(); q++) if (!vc[q]->unsatisfiable) { double sl = x[cs[q].r] - x[cs[q].l] - cs[q].gap; if (sl < -1e-6) { ctx.violation("unsatisfied_constraint", {}, hist, cstr(cs[q]) + " slack=" + mcx::g(sl)); break; } }
                            if (any) ctx.violation("flag_on_feasible", {}, hist); for (auto c : vc) if (c->active) nontriv = true;
                            for (double v : x) if (!(v == v) || std::isinf(v)) { ctx.violation("nonfinite", {}, hist); break; } }
                        else if (!any) { vector<double> best; int nact = 0; if (oracle::qp_active_set(n, d, I.w, I.sc, cs, best, &nact)) { if (nact > 0) nontriv = true; double err = 0; for (int i = 0; i < n; i++) err = max(err, fabs(best[i] - x[i])); ctx.count("optimality_checks");
                            if (!(err <= 1e-5 * 50)) ctx.violation("not_optimal", {}, hist, "x=" + xs(x) + " optimum=" + xs(best) + " err=" + mcx::g(err)); } }
                    };
                    try {
                        typename NS::Inc s(vs, vc);
                        s.solve(); judge1();
                        for (int i = 0; i < n; i++) { d[i] = dvals[d1sel[i]]; vs[i]->desiredPosition = d[i]; } hist += " desired:=[" + xs(d) + "]";
                        { const SepC &c = alphabet[add]; auto *nc = new typename NS::C(vs[c.l], vs[c.r], c.gap, false); vc.push_back(nc); cs.push_back(c); s.addConstraint(nc); hist += " add(" + cstr(c) + ") solve"; }
                        s.solve(); judge1();
                        for (int step = 0; step < 2 * n; step++) { int v = step / 2; double nv = newd[step % 2]; d[v] = nv; vs[v]->desiredPosition = nv; hist += mcx::fmt(" desired[%d]:=%g solve", v, nv); s.solve(); judge1(); }
                    } catch (vpsc::CriticalFailure &f) { ctx.library_abort(f.what(), hist); if (P1) ctx.violation("inc_throw", {}, hist, f.what()); }
                    catch (...) { if (P1) ctx.violation("inc_throw", {}, hist, "exception"); }
                    if (nontriv) ctx.count("nontrivial");
                    for (auto c : vc) delete c; for (auto v : vs) delete v;
                    ctx.done_case();
                } while (mcx::odo_next(d1sel, (int)dvals.size()));
                } while (fullD0 && mcx::odo_next(d0sel, (int)dvals.size()));
            }
        } while (!ctx.stopped() && mcx::multiset_next(idx, A));
    }
}


// ---- part A4: larger structured problems (n up to 40 / 100): chains, stars, binary trees, braided DAGs, chains with equalities -----------------
// The exhaustive instances never have more than a handful of constraints per block; the solvers' heaps of in/out constraints, time stamps,
// long merge cascades and deep splits only come into play with many variables.  Every member of a parametric family: shape x size x desired
// pattern x weights x scales x solver; oracle = Hildreth's dual ascent (oracle/qp.h), cross-checked against the active-set oracle on n = 8.
template <class NS> static void families(bool thorough) {
    ctx.phase(mcx::fmt("structured problems %s: {chain, star, binary tree, braid, chain with equalities, dense DAG, band with implied constraints} x n in {8,16,40(,100)} and independent three-variable groups that each need one split, n in {6,15,39,180,330(,600,1002)}; x 5 desired patterns x 2 weightings x 2 scalings x {incremental, static} solver, solve + two re-solves", NS::name()));
    vector<int> sizes = {8, 16, 40}; if (thorough) sizes.push_back(100);
    vector<int> gsizes = {6, 15, 39, 180, 330}; if (thorough) { gsizes.push_back(600); gsizes.push_back(1002); }
    for (int shape = 0; shape < 8; shape++) for (int n : (shape == 5 ? gsizes : sizes)) for (int dp = 0; dp < 5; dp++) for (int wv = 0; wv < 2; wv++) for (int sv = 0; sv < 2; sv++) for (int stat = 0; stat < (std::is_same<typename NS::Inc, typename NS::Stat>::value ? 1 : 2); stat++) {
        if (stat && shape == 4) continue;   // the static solver with equalities is KF-C01-1 (reported by the enumerated instances)
        if (ctx.stopped()) return; if (!ctx.next()) continue;
        Inst I; I.n = n; I.w.assign(n, 1); I.sc.assign(n, 1); I.d.assign(n, 0);
        for (int i = 0; i < n; i++) { if (wv) I.w[i] = 1 + (i % 3) * 3; if (sv) I.sc[i] = (i % 2) ? 2 : 0.5;
            I.d[i] = dp == 0 ? (n - i) * 3.0 : dp == 1 ? 0 : dp == 2 ? ((i % 2) ? 10 : 0) : dp == 3 ? i * 0.5 : (double)((i * 7) % n); }
        for (int i = 0; i < n; i++) {
            if (shape == 0 && i + 1 < n) I.cs.push_back({i, i + 1, 2, false});
            if (shape == 1 && i > 0) I.cs.push_back({0, i, 1.0 + (i % 3), false});
            if (shape == 2) { if (2 * i + 1 < n) I.cs.push_back({i, 2 * i + 1, 2, false}); if (2 * i + 2 < n) I.cs.push_back({i, 2 * i + 2, 3, false}); }
            if (shape == 3) { if (i + 1 < n) I.cs.push_back({i, i + 1, 1, false}); if (i + 3 < n) I.cs.push_back({i, i + 3, 4.5, false}); }
            if (shape == 4 && i + 1 < n) I.cs.push_back({i, i + 1, 2, i % 3 == 1});
            if (shape == 6) for (int j = i + 1; j < n; j++) if ((i + j) % 3 == 0) I.cs.push_back({i, j, 1.0 + ((i * j) % 4), false});            // dense DAG
            if (shape == 7) for (int j = i + 1; j < n && j <= i + 4; j++) if ((i * 3 + j) % 2 == 0) I.cs.push_back({i, j, 0.5 * (j - i), false});     // band with redundant (implied) constraints
            if (shape == 5 && i % 3 == 0) { I.cs.push_back({i, i + 1, 3, false}); I.cs.push_back({i, i + 2, 3, false}); }
        }
        if (shape == 5) for (int i = 0; i < n; i++) { static const double base[3] = {5, 3, 6}; I.d[i] = base[i % 3] + (i / 3) * 0.01 + (dp == 0 ? 0 : dp == 1 ? (i % 3 == 1) * 0.5 : dp == 2 ? (i / 3) % 2 : dp == 3 ? -(i % 3) * 0.25 : ((i / 3) * 7) % 5 * 0.1); }
        string desc = mcx::fmt("%s %s solver, structured shape#%d n=%d desired#%d weights#%d scales#%d (%zu constraints)", NS::name(), stat ? "static" : "incremental", shape, n, dp, wv, sv, I.cs.size());
        ctx.count("states"); ctx.count("nontrivial"); ctx.sample(desc, 1);
        typename NS::Vs vs; typename NS::Cs vc; for (int i = 0; i < n; i++) vs.push_back(new typename NS::V(i, I.d[i], I.w[i], I.sc[i])); for (auto &c : I.cs) vc.push_back(new typename NS::C(vs[c.l], vs[c.r], c.gap, c.eq));
        vector<double> d = I.d; string hist = desc + " ops: solve";
        try {
            typename NS::Inc *sInc = stat ? nullptr : new typename NS::Inc(vs, vc); std::unique_ptr<typename NS::Inc> holdInc(sInc);
            for (int step = 0; step < 3; step++) {
                if (step == 1) { for (int i = 0; i < n; i += 3) { d[i] = -20; vs[i]->desiredPosition = -20; } hist += " desired[every 3rd]:=-20 solve"; }
                if (step == 2) { for (int i = 1; i < n; i += 2) { d[i] = 200 - i; vs[i]->desiredPosition = 200 - i; } hist += " desired[odd]:=200-i solve"; }
                if (sInc) sInc->solve(); else { for (auto c : vc) delete c; vc.clear(); for (auto &c : I.cs) vc.push_back(new typename NS::C(vs[c.l], vs[c.r], c.gap, c.eq)); typename NS::Stat s2(vs, vc); s2.solve(); }   // the static solver is built anew for every solve
                ctx.count("transitions");
                vector<double> x; for (auto v : vs) x.push_back(v->finalPosition);
                bool any = false; for (auto c : vc) any |= c->unsatisfiable;
                if (P1) { if (any) ctx.violation("flag_on_feasible", {"structured"}, hist);
                    for (size_t q = 0; q < vc.size(); q++) { double sl = I.sc[I.cs[q].r] * x[I.cs[q].r] - I.sc[I.cs[q].l] * x[I.cs[q].l] - I.cs[q].gap; if (I.cs[q].eq ? fabs(sl) > 1e-6 : sl < -1e-6) { ctx.violation("unsatisfied_constraint", {"structured"}, hist, cstr(I.cs[q]) + " slack=" + mcx::g(sl)); break; } }
                    for (double v : x) if (!(v == v) || std::isinf(v)) { ctx.violation("nonfinite", {"structured"}, hist); break; } }
                else if (!any) { vector<double> best;
                    if (!oracle::qp_hildreth(n, d, I.w, I.sc, I.cs, best)) { ctx.count("oracle_not_converged"); continue; }
                    if (n <= 8 && I.cs.size() <= 12) { vector<double> b2; if (oracle::qp_active_set(n, d, I.w, I.sc, I.cs, b2)) { double e2 = 0; for (int i = 0; i < n; i++) e2 = max(e2, fabs(b2[i] - best[i])); if (e2 > 1e-7) { fprintf(stderr, "MCX-ABORT: Hildreth and active-set oracles disagree by %g on %s\n", e2, hist.c_str()); exit(3); } } }
                    double err = 0; for (int i = 0; i < n; i++) err = max(err, fabs(best[i] - x[i])); ctx.count("optimality_checks");
                    if (!(err <= 1e-5 * 200)) ctx.violation("not_optimal", {"structured"}, hist, mcx::fmt("max |x - optimum| = %g", err)); }
            }
        } catch (vpsc::CriticalFailure &f) { ctx.library_abort(f.what(), hist); if (P1) ctx.violation("inc_throw", {"structured"}, hist, f.what()); }
        catch (...) { if (P1) ctx.violation("inc_throw", {"structured"}, hist, "exception"); }
        for (auto c : vc) delete c; for (auto v : vs) delete v;
        ctx.done_case();
    }
}


// ---- part A'': fan-in with draggers (the static solver's per-block constraint heaps) ----------------------------------------------
// The static solver keeps, per block, pairing heaps of incoming/outgoing constraints whose keys go out of date when the block at the
// other end moves; which entry hides which depends on the ORDER of the constraint vector and on the slacks.  Family: a target Y with
// m incoming constraints, each from one of three sources {L, c, s} with a gap from {5, 8, 13, 14} -- EVERY sequence of m (source, gap)
// pairs (the sequence is the order in the constraint vector; two constraints from one source are parallel constraints) -- a dragger
// L <= q that pulls L to the left after Y's heap is built, a dragger Y <= Z that pulls Y to the left after that, and w <= Z to fix the
// processing order; q and Z desired at three positions each; draggers placed first or last in the vector.  All systems are acyclic.
static void fanin(int m, bool avoidToo) {
    ctx.phase(mcx::fmt("fan-in with draggers: target with every sequence of %d incoming constraints from 3 sources x 4 gaps, 3x3 dragger positions, 2 vector layouts; static solve/satisfy and incremental solve", m));
    const double gaps[4] = {5, 8, 13, 14}; const double qd[3] = {-2, 4, 12}, zd[3] = {7, 13, 25};
    vector<int> idx(m, 0);
    do {
        if (ctx.stopped()) return; if (!ctx.next()) continue;
        for (int qi = 0; qi < 3; qi++) for (int zi = 0; zi < 3; zi++) for (int layout = 0; layout < 2; layout++) {
            Inst I; I.n = 7; I.w.assign(7, 1); I.sc.assign(7, 1); I.d = {-100, 10, 0, 0, 20, qd[qi], zd[zi]};   // 0 w, 1 L, 2 c, 3 s, 4 Y, 5 q, 6 Z
            vector<SepC> fan; for (int k = 0; k < m; k++) fan.push_back({1 + idx[k] / 4, 4, gaps[idx[k] % 4], false});
            if (layout == 0) { I.cs.push_back({1, 5, 0, false}); for (auto &c : fan) I.cs.push_back(c); I.cs.push_back({4, 6, 0, false}); I.cs.push_back({0, 6, 0, false}); }
            else { I.cs.push_back({4, 6, 0, false}); I.cs.push_back({0, 6, 0, false}); for (auto &c : fan) I.cs.push_back(c); I.cs.push_back({1, 5, 0, false}); }
            ctx.count("states"); ctx.count("nontrivial");
            vector<double> opt; int nact = 0; bool haveOpt = oracle::qp_active_set(I.n, I.d, I.w, I.sc, I.cs, opt, &nact);
            for (int kind : {2, 3, 0}) { Outcome o = run_instance<NSvpsc>(I, kind); judge(I, o, mcx::fmt("vpsc::%s.%s", kind < 2 ? "IncSolver" : "Solver", kind % 2 ? "satisfy" : "solve"), kind >= 2, kind % 2 == 0, true, false, false, haveOpt ? &opt : nullptr); }
            if (avoidToo) { Outcome o = run_instance<NSavoid>(I, 0); judge(I, o, "Avoid::IncSolver.solve", false, true, true, false, false, haveOpt ? &opt : nullptr); }
        }
        ctx.sample(mcx::fmt("fan-in sequence #%d...", idx[0]), 1);
        ctx.done_case();
    } while (mcx::odo_next(idx, 12));
}


// ---- constraintsRemovingRedundantEqualities (documented helper: "returns a modified set of constraints with all redundant equality constraints removed";
// VPSC shows redundant equalities as unsatisfiable) -- every sequence of up to `depth` constraints over n variables; reference: potentials over the graph of
// the equalities kept so far.  Clauses: the result is the input with exactly the implied equalities dropped (same objects, same order); and, on feasible
// equality systems, IncSolver on the filtered list flags nothing.
static void redundant_equalities(int n, int depth) {
    vector<SepC> alpha; for (int l = 0; l < n; l++) for (int r = 0; r < n; r++) if (l != r) { for (double g : {0.0, 1.0, 2.0}) alpha.push_back({l, r, g, true}); }
    alpha.push_back({0, 1, 1, false}); alpha.push_back({1, 0, 0, false});
    ctx.phase(mcx::fmt("constraintsRemovingRedundantEqualities: every sequence of <=%d constraints over %d variables (%zu-letter alphabet)", depth, n, alpha.size()));
    for (int d = 1; d <= depth && !ctx.stopped(); d++) { vector<int> idx(d, 0);
        do { if (!ctx.next()) continue;
            vpsc::Variables vs; for (int i = 0; i < n; i++) vs.push_back(new vpsc::Variable(i, i * 1.5, 1, 1)); vpsc::Constraints cs; string desc = "constraintsRemovingRedundantEqualities n=" + to_string(n) + ":";
            for (int k : idx) { cs.push_back(new vpsc::Constraint(vs[alpha[k].l], vs[alpha[k].r], alpha[k].gap, alpha[k].eq)); desc += " " + cstr(alpha[k]); }
            ctx.count("states"); ctx.count("transitions"); ctx.sample(desc, 1);
            // reference
            vector<int> comp(n); vector<double> pot(n, 0); for (int i = 0; i < n; i++) comp[i] = i; vpsc::Constraints want; bool consistent = true; int dropped = 0;
            for (size_t q = 0; q < cs.size(); q++) { const SepC &c = alpha[idx[q]];
                if (!c.eq) { want.push_back(cs[q]); continue; }
                if (comp[c.l] == comp[c.r]) { if (fabs(pot[c.l] + c.gap - pot[c.r]) < 1e-9) { dropped++; continue; } consistent = false; want.push_back(cs[q]); continue; }
                double off = pot[c.l] + c.gap - pot[c.r]; int from = comp[c.r], to = comp[c.l]; for (int i = 0; i < n; i++) if (comp[i] == from) { comp[i] = to; pot[i] += off; } want.push_back(cs[q]); }
            if (dropped) ctx.count("nontrivial");
            try { vpsc::Constraints got = vpsc::constraintsRemovingRedundantEqualities(vs, cs);
                if (got != want) ctx.violation("redundant_equalities_filter_wrong", {}, desc, mcx::fmt("kept %zu of %zu, expected %zu", got.size(), cs.size(), want.size()));
                else if (consistent) { bool onlyEq = true; for (int k : idx) onlyEq &= alpha[k].eq; if (onlyEq) { vpsc::IncSolver sv(vs, got); sv.solve(); for (auto c : got) if (c->unsatisfiable) { ctx.violation("flag_on_feasible", {}, desc + " (after removing the redundant equalities)"); break; } } }
            } catch (vpsc::CriticalFailure &f) { ctx.library_abort(f.what(), desc); } catch (...) { ctx.violation("inc_throw", {}, desc, "exception"); }
            for (auto c : cs) delete c; for (auto v : vs) delete v;
            ctx.done_case();
        } while (mcx::odo_next(idx, (int)alpha.size()) && !ctx.stopped()); }
}


// ---- part A-4: two splitting groups around a middle block (what a later pass of the static solver's refine() sees of an earlier one) -------------------
// Left group {v0,v1,v2}: v0+2<=v1, v0+2<=v2 with v2 heavy, so satisfy() merges all three and refine() later splits v1 off (v1 moves RIGHT, towards the middle).
// Middle v4 with two incoming constraints, from v1 and from a free v3.  Right group {v5,v6,v7}: v4+gC<=v5, v5+2<=v6, v5+2<=v7, which refine() also splits,
// after which {v5,v7} moves LEFT and drags v4 with it.  Every combination of the gaps, desired positions and weights below x the orders of each group's
// constraints in the vector x which group comes first.  All systems are acyclic and feasible.
static void two_groups() {
    ctx.phase("two splitting groups around a middle block: 3^5*2*3^2 parameter settings x 16 constraint orders; static solve/satisfy and incremental solve");
    const double A[3] = {3, 5, 7}, GA[3] = {1, 3, 5}, GB[3] = {1, 3, 5}, GC[3] = {3.5, 5.5, 7.5}, D4[3] = {8, 10, 12}, D5[2] = {18, 20}, D7[3] = {8, 10, 12}, W7[3] = {1, 2, 4};
    vector<int> radix = {3, 3, 3, 3, 3, 2, 3, 3}, idx(8, 0);
    do {
        if (ctx.stopped()) return; if (!ctx.next()) continue;
        for (int ord = 0; ord < 16; ord++) {
            Inst I; I.n = 8; I.sc.assign(8, 1); I.d = {A[idx[0]], A[idx[0]], 0, 5, D4[idx[4]], D5[idx[5]], 21, D7[idx[6]]}; I.w = {1, 1, 10, 1, 1, 1, 4, W7[idx[7]]};
            vector<SepC> g1 = {{0, 2, 2, false}, {0, 1, 2, false}}, mid = {{1, 4, GA[idx[1]], false}, {3, 4, GB[idx[2]], false}}, g2 = {{4, 5, GC[idx[3]], false}, {5, 7, 2, false}, {5, 6, 2, false}};
            if (ord & 1) swap(g1[0], g1[1]); if (ord & 2) swap(mid[0], mid[1]); if (ord & 4) swap(g2[1], g2[2]);
            vector<vector<SepC>> parts = (ord & 8) ? vector<vector<SepC>>{g2, mid, g1} : vector<vector<SepC>>{g1, mid, g2}; for (auto &pp : parts) for (auto &c : pp) I.cs.push_back(c);
            ctx.count("states"); ctx.count("nontrivial");
            vector<double> opt; int nact = 0; bool haveOpt = oracle::qp_active_set(I.n, I.d, I.w, I.sc, I.cs, opt, &nact);
            for (int kind : {2, 3, 0}) { Outcome o = run_instance<NSvpsc>(I, kind); judge(I, o, mcx::fmt("vpsc::%s.%s", kind < 2 ? "IncSolver" : "Solver", kind % 2 ? "satisfy" : "solve"), kind >= 2, kind % 2 == 0, true, false, false, haveOpt ? &opt : nullptr); }
        }
        ctx.sample(mcx::fmt("two groups setting #%d%d%d%d...", idx[0], idx[1], idx[2], idx[3]), 1);
        ctx.done_case();
    } while (mcx::odo_next(idx, radix));
}

// ---- part B: histories on one live IncSolver --------------------------------------
struct Op { int kind; int a; double v; SepC c; };   // 0 add c, 1 desired[a]:=v, 2 solve, 3 satisfy
static string op_str(const Op &p) {
    if (p.kind == 0) return "add(" + cstr(p.c) + ")";
    if (p.kind == 1) return mcx::fmt("desired[%d]:=%g", p.a, p.v);
    return p.kind == 2 ? "solve" : "satisfy";
}
template <class NS> static void histories(int n, int depth, int variant, bool withEq) {
    vector<Op> alpha;
    for (int l = 0; l < n; l++) for (int r = 0; r < n; r++) if (l != r) for (double g : {0.0, 2.0}) alpha.push_back({0, 0, 0, {l, r, g, false}});
    if (withEq) for (int l = 0; l < n; l++) for (int r = 0; r < n; r++) if (l < r) alpha.push_back({0, 0, 0, {l, r, 1.0, true}});
    for (int a = 0; a < n; a++) for (double v : {0.0, 3.0}) alpha.push_back({1, a, v, {}});
    int firstSolve = alpha.size();
    alpha.push_back({2, 0, 0, {}}); alpha.push_back({3, 0, 0, {}});
    vector<double> sc(n, 1.0), w(n, 1.0);
    if (variant == 1) { sc[0] = 2; if (n > 2) sc[2] = 0.5; }
    if (variant == 2) { w[0] = 4; if (n > 2) w[2] = 0.25; }
    vector<double> d0 = {1, 0, 2, 1};
    ctx.phase(mcx::fmt("histories %s n=%d depth=%d variant=%d eq=%d alphabet=%zu", NS::name(), n, depth, variant, withEq, alpha.size()));
    vector<int> idx(depth, 0); idx[depth - 1] = firstSolve;
    for (;;) {
        if (ctx.stopped()) break;
        if (idx[depth - 1] >= firstSolve && ctx.next()) {
            auto hist = [&](int upto) { string s = mcx::fmt("%s::IncSolver n=%d variant=%d d0=[1 0 2 1] ops:", NS::name(), n, variant); for (int q = 0; q <= upto; q++) s += " " + op_str(alpha[idx[q]]); return s; };
            typename NS::Vs vs; typename NS::Cs vc; vector<SepC> cs; bool anyEq = false;
            for (int i = 0; i < n; i++) vs.push_back(new typename NS::V(i, d0[i], w[i], sc[i]));
            ctx.sample(hist(depth - 1));
            bool nontriv = false;
            try {
                typename NS::Inc s(vs, vc);
                for (int k = 0; k < depth; k++) {
                    const Op &o = alpha[idx[k]];
                    if (o.kind == 0) { auto *c = new typename NS::C(vs[o.c.l], vs[o.c.r], o.c.gap, o.c.eq); vc.push_back(c); cs.push_back(o.c); anyEq |= o.c.eq; s.addConstraint(c); ctx.count("transitions"); }
                    else if (o.kind == 1) { vs[o.a]->desiredPosition = o.v; ctx.count("transitions"); }
                    else {
                        if (o.kind == 2) s.solve(); else s.satisfy();
                        ctx.count("transitions"); ctx.count("states");
                        bool any = false; for (auto c : vc) any |= c->unsatisfiable;
                        bool feas = oracle::feasible_bf(n, cs);
                        if (!feas) nontriv = true;
                        if (P1) {
                            for (size_t q = 0; q < vc.size(); q++) if (!vc[q]->unsatisfiable) {
                                double sl = sc[cs[q].r] * vs[cs[q].r]->finalPosition - sc[cs[q].l] * vs[cs[q].l]->finalPosition - cs[q].gap;
                                if (cs[q].eq ? fabs(sl) > 1e-6 : sl < -1e-6) { ctx.violation("unsatisfied_constraint", {}, hist(k), cstr(cs[q]) + " slack=" + mcx::g(sl)); break; }
                            }
                            for (auto v : vs) if (!(v->finalPosition == v->finalPosition) || std::isinf(v->finalPosition)) { ctx.violation("nonfinite", {}, hist(k)); break; }
                            if (!anyEq && any != !feas) ctx.violation(any ? "flag_on_feasible" : "no_flag_on_infeasible", {}, hist(k));
                        } else if (o.kind == 2 && !any && feas) {
                            vector<double> d(n), best; int nact = 0;
                            for (int i = 0; i < n; i++) d[i] = vs[i]->desiredPosition;
                            if (oracle::qp_active_set(n, d, w, sc, cs, best, &nact)) {
                                if (nact > 0) nontriv = true;
                                double err = 0; string x;
                                for (int i = 0; i < n; i++) { err = max(err, fabs(best[i] - vs[i]->finalPosition)); x += mcx::g(vs[i]->finalPosition) + " "; }
                                ctx.count("optimality_checks");
                                if (!(err <= 1e-5 * 3)) ctx.violation("not_optimal", {}, hist(k), "x=" + x + " optimum=" + xs(best) + " err=" + mcx::g(err));
                            }
                        }
                        if (P1 && feas) { for (auto c : vc) if (c->active) nontriv = true; }
                    }
                }
            } catch (vpsc::CriticalFailure &f) { ctx.library_abort(f.what(), hist(depth - 1)); if (P1) ctx.violation("inc_throw", {}, hist(depth - 1), f.what()); }
            catch (...) { if (P1) ctx.violation("inc_throw", {}, hist(depth - 1), "exception"); }
            if (nontriv) ctx.count("nontrivial");
            for (auto c : vc) delete c;
            for (auto v : vs) delete v;
            ctx.done_case();
        }
        int k = depth - 1;
        while (k >= 0 && ++idx[k] == (int)alpha.size()) { idx[k] = 0; k--; }
        if (k < 0) break;
        if (idx[depth - 1] < firstSolve) idx[depth - 1] = firstSolve;
    }
}

int main(int argc, char **argv) {
    ctx.init(argc, argv);
    P1 = ctx.opt["prop"] != "C02";
    bool T = ctx.thorough();
    // iterated bounds: small first, so the first counterexample is the smallest
    for (int n = 1; n <= 3; n++) instances(n, 3, true, 0, false);
    instances(3, 3, true, 1, false);
    g_gaps = {-3, 0, 2}; instances(2, 4, false, 0, false); instances(3, 3, false, 0, false); g_unitWeightsOnly = true; instances(3, 4, false, 0, false); g_unitWeightsOnly = false; g_gaps = {-1, 0, 2};   // (m = 4 over three variables: a chain, its shortcut and a slack upper bound on its span -- unit weights only)
    instances(2, 3, true, 2, false);
    if (!P1) { instances(2, 3, true, 0, true); instances(3, 2, true, 0, true); instances(3, 2, false, 1, true); }
    resolves<NSvpsc>(3, 3, {-1, 0, 2}, 1); resolves<NSvpsc>(4, 4, {1}, 2); resolves<NSavoid>(3, 3, {0, 2}, 2);
    resolves<NSvpsc>(3, 3, {-1, 0, 2}, 1, true); resolves<NSavoid>(3, 3, {0, 2}, 2, true);
    addresolves<NSvpsc>(3, 2, false); addresolves<NSavoid>(3, 2, false);
    families<NSvpsc>(T); families<NSavoid>(T);
    if (P1) { redundant_equalities(3, 3); redundant_equalities(4, 2); if (T) { redundant_equalities(3, 4); redundant_equalities(4, 3); } }
    two_groups();
    fanin(3, true); fanin(4, false); if (T) { fanin(4, true); fanin(5, false); }
    histories<NSvpsc>(3, 3, 0, false);
    histories<NSvpsc>(3, 4, 0, false);
    histories<NSvpsc>(3, 4, 1, false);
    histories<NSavoid>(3, 4, 0, false);
    histories<NSvpsc>(3, 5, 1, false);
    histories<NSvpsc>(3, 4, 2, true);
    if (T) {
        addresolves<NSvpsc>(3, 2, true); addresolves<NSvpsc>(3, 3, false);
        resolves<NSvpsc>(4, 4, {0, 2}, 2); resolves<NSavoid>(4, 4, {1}, 2); resolves<NSvpsc>(4, 5, {1}, 0);
        instances(3, 4, true, 0, false);
        instances(4, 3, true, 0, false);
        instances(3, 5, false, 0, false);
        instances(4, 4, false, 0, false);
        if (!P1) instances(4, 2, false, 0, true);
        histories<NSvpsc>(3, 5, 0, true);
        histories<NSavoid>(3, 5, 1, false);
        histories<NSvpsc>(3, 6, 0, false);
        histories<NSvpsc>(3, 6, 1, false);
        histories<NSvpsc>(4, 5, 0, false);
    }
    return ctx.finish();
}
