// C17: dijkstra / johnsons / floyd_warshall and ConstrainedFDLayout's D,G matrices against Bellman-Ford,
// exhaustively over every small weighted multigraph (self-loops, parallel edges, zero weights, disconnected).
#include <cstddef>
#include <vector>
#include <valarray>
#include <cfloat>
#include <cmath>
#include <libcola/shortest_paths.h>
#include <libcola/cola.h>
#include "mcx/mcx.h"
using namespace std;
static mcx::Ctx ctx;
struct E { unsigned u, v; double w; };
static string gstr(int n, const vector<E> &es) { string s = mcx::fmt("n=%d edges:", n); for (auto &e : es) s += mcx::fmt(" %u-%u(%g)", e.u, e.v, e.w); return s; }

static vector<vector<double>> bellman(int n, const vector<E> &es) {
    vector<vector<double>> O(n, vector<double>(n, DBL_MAX));
    for (int s = 0; s < n; s++) {
        O[s][s] = 0;
        for (int it = 0; it < n; it++) for (auto &e : es) {
            if (O[s][e.u] != DBL_MAX && O[s][e.u] + e.w < O[s][e.v]) O[s][e.v] = O[s][e.u] + e.w;
            if (O[s][e.v] != DBL_MAX && O[s][e.v] + e.w < O[s][e.u]) O[s][e.u] = O[s][e.v] + e.w;
        }
    }
    return O;
}
static double g_scale = 1;   // all weights of the structured family are multiplied by a power of two: every sum scales exactly, so the tolerance scales with it
static bool same(double got, double want) { return got == want || (want != DBL_MAX && got != DBL_MAX && fabs(got - want) <= 1e-9 * max(g_scale, fabs(want))); }

static void run(int n, int maxm, const vector<double> &ws, bool layout) {
    vector<E> alpha;
    for (int u = 0; u < n; u++) for (int v = u; v < n; v++) for (double w : ws) alpha.push_back({(unsigned)u, (unsigned)v, w});
    ctx.phase(mcx::fmt("%s n=%d m<=%d weights=%zu alphabet=%zu", layout ? "ConstrainedFDLayout D/G" : "dijkstra/johnsons/floyd_warshall", n, maxm, ws.size(), alpha.size()));
    double **D1 = new double *[n], **D2 = new double *[n];
    for (int i = 0; i < n; i++) { D1[i] = new double[n]; D2[i] = new double[n]; }
    for (int m = 0; m <= maxm && !ctx.stopped(); m++) {
        vector<int> idx(m, 0);
        do {
            if (!ctx.next()) continue;
            vector<E> es; for (int i : idx) es.push_back(alpha[i]);
            bool loops = false, par = false, disc = false;
            for (size_t i = 0; i < es.size(); i++) { if (es[i].u == es[i].v) loops = true; for (size_t j = i + 1; j < es.size(); j++) if (es[i].u == es[j].u && es[i].v == es[j].v) par = true; }
            ctx.count("states"); ctx.sample(gstr(n, es));
            if (!layout) {
                vector<shortest_paths::Edge> se; valarray<double> ew(m);
                for (int i = 0; i < m; i++) { se.push_back({es[i].u, es[i].v}); ew[i] = es[i].w; }
                auto O = bellman(n, es);
                for (auto &r : O) for (double d : r) if (d == DBL_MAX) disc = true;
                if (loops || par || disc) ctx.count("nontrivial");
                shortest_paths::johnsons(n, D1, se, ew); shortest_paths::floyd_warshall(n, D2, se, ew); ctx.count("transitions", 2 + n);
                for (int i = 0; i < n; i++) {
                    vector<double> d(n); shortest_paths::dijkstra(i, n, d.data(), se, ew);
                    for (int j = 0; j < n; j++) {
                        if (!same(D1[i][j], O[i][j])) { ctx.violation("johnsons_wrong", {}, gstr(n, es), mcx::fmt("D[%d][%d]=%g want %g", i, j, D1[i][j], O[i][j])); }
                        if (!same(D2[i][j], O[i][j])) { ctx.violation("floyd_warshall_wrong", {}, gstr(n, es), mcx::fmt("D[%d][%d]=%g want %g", i, j, D2[i][j], O[i][j])); }
                        if (!same(d[j], O[i][j])) { ctx.violation("dijkstra_wrong", {}, gstr(n, es), mcx::fmt("d[%d][%d]=%g want %g", i, j, d[j], O[i][j])); }
                        if (D1[i][j] != D1[j][i] || D2[i][j] != D2[j][i]) ctx.violation("asymmetric", {}, gstr(n, es));
                    }
                }
                if (m == 0 || true) {   // default weights (empty valarray) = every edge has weight 1
                    vector<E> unit = es; for (auto &e : unit) e.w = 1; auto O1 = bellman(n, unit);
                    shortest_paths::johnsons(n, D1, se); shortest_paths::floyd_warshall(n, D2, se);
                    for (int i = 0; i < n; i++) for (int j = 0; j < n; j++) if (!same(D1[i][j], O1[i][j]) || !same(D2[i][j], O1[i][j])) ctx.violation("unit_weights_wrong", {}, gstr(n, es), mcx::fmt("[%d][%d] johnsons %g floyd %g want %g", i, j, D1[i][j], D2[i][j], O1[i][j]));
                }
            } else {
                for (double ideal : {1.0, 30.0}) {
                    vpsc::Rectangles rs; for (int i = 0; i < n; i++) rs.push_back(new vpsc::Rectangle(i * 50, i * 50 + 10, 0, 10));
                    vector<cola::Edge> ce; cola::EdgeLengths el;
                    vector<E> eff = es;
                    for (auto &e : eff) { ce.push_back({e.u, e.v}); el.push_back(e.w); if (e.w <= 0) e.w = 1; }
                    auto O = bellman(n, eff);
                    for (auto &r : O) for (double d : r) if (d == DBL_MAX) disc = true;
                    FILE *saved = stderr; // library prints a warning for non-positive lengths
                    cola::ConstrainedFDLayout alg(rs, ce, ideal, el); ctx.count("transitions");
                    vector<double> D = alg.readLinearD(); vector<unsigned> Gm = alg.readLinearG();
                    for (int i = 0; i < n; i++) for (int j = 0; j < n; j++) {
                        double want = (O[i][j] == DBL_MAX) ? DBL_MAX : (i == j ? 0 : ideal * O[i][j]);
                        if (!same(D[n * i + j], want)) ctx.violation("layout_D_wrong", {}, gstr(n, es) + mcx::fmt(" idealLength=%g", ideal), mcx::fmt("D[%d][%d]=%g want %g", i, j, D[n * i + j], want));
                        if (i != j) {
                            bool adj = false; for (auto &e : es) if ((e.u == (unsigned)i && e.v == (unsigned)j) || (e.u == (unsigned)j && e.v == (unsigned)i)) adj = true;
                            unsigned wantG = adj ? 1 : (O[i][j] == DBL_MAX ? 0 : 2);
                            if (Gm[n * i + j] != wantG) ctx.violation("layout_G_wrong", {}, gstr(n, es), mcx::fmt("G[%d][%d]=%u want %u", i, j, Gm[n * i + j], wantG));
                        }
                    }
                    for (auto r : rs) delete r;
                }
                bool nonpos = false; for (auto &e : es) if (e.w <= 0) nonpos = true;
                if (loops || par || disc || nonpos) ctx.count("nontrivial");
            }
            ctx.done_case();
        } while (m > 0 && mcx::multiset_next(idx, alpha.size()) && !ctx.stopped());
    }
}

// larger structured graphs: the pairing heap only grows its sibling array beyond five siblings, relaxations only chain over many steps, etc.
// Every member of a small parametric family: shape x size x weight pattern.
static void families(bool thorough) {
    ctx.phase("structured graphs: {star, path, cycle, wheel, complete, two components, ladder} x n in {6,8,12,20,33(,64)} x 4 weight patterns x weight scale in {1, 2^-33 (about 1e-10), 2^23}");
    vector<int> sizes = {6, 8, 12, 20, 33}; if (thorough) sizes.push_back(64);
    for (int shape = 0; shape < 7; shape++) for (int n : sizes) for (int wp = 0; wp < 4; wp++) for (int sci = 0; sci < 3; sci++) {
        if (shape == 4 && n > 20) continue; if (ctx.stopped()) return; if (!ctx.next()) continue;
        g_scale = sci == 0 ? 1 : sci == 1 ? ldexp(1.0, -33) : ldexp(1.0, 23);
        vector<pair<unsigned, unsigned>> pe;
        if (shape == 0) for (int i = 1; i < n; i++) pe.push_back({0, (unsigned)i});
        else if (shape == 1) for (int i = 1; i < n; i++) pe.push_back({(unsigned)i - 1, (unsigned)i});
        else if (shape == 2) { for (int i = 1; i < n; i++) pe.push_back({(unsigned)i - 1, (unsigned)i}); pe.push_back({(unsigned)n - 1, 0}); }
        else if (shape == 3) { for (int i = 1; i < n; i++) { pe.push_back({0, (unsigned)i}); pe.push_back({(unsigned)i, (unsigned)(i % (n - 1) + 1)}); } }
        else if (shape == 4) for (int i = 0; i < n; i++) for (int j = i + 1; j < n; j++) pe.push_back({(unsigned)i, (unsigned)j});
        else if (shape == 5) { int h = n / 2; for (int i = 1; i < h; i++) pe.push_back({0, (unsigned)i}); for (int i = h + 1; i < n; i++) pe.push_back({(unsigned)i - 1, (unsigned)i}); }
        else { int h = n / 2; for (int i = 0; i < h; i++) { if (i + 1 < h) { pe.push_back({(unsigned)i, (unsigned)i + 1}); pe.push_back({(unsigned)(h + i), (unsigned)(h + i + 1)}); } pe.push_back({(unsigned)i, (unsigned)(h + i)}); } }
        vector<E> es; for (size_t k = 0; k < pe.size(); k++) { double w = wp == 0 ? 1 : wp == 1 ? ((k * 7 + 3) % 5) * 0.5 : wp == 2 ? 1 + (k % 3) * 0.75 : (double)((k * k + 1) % 7) + 0.25; es.push_back({pe[k].first, pe[k].second, w * g_scale}); }
        string desc = mcx::fmt("structured shape#%d n=%d weights#%d x %g (%zu edges)", shape, n, wp, g_scale, es.size()); ctx.sample(desc, 1); ctx.count("states"); ctx.count("nontrivial"); ctx.count("transitions", 2 + n);
        int m = es.size(); vector<shortest_paths::Edge> se; valarray<double> ew(m); for (int i = 0; i < m; i++) { se.push_back({es[i].u, es[i].v}); ew[i] = es[i].w; }
        auto O = bellman(n, es);
        double **D1 = new double *[n], **D2 = new double *[n]; for (int i = 0; i < n; i++) { D1[i] = new double[n]; D2[i] = new double[n]; }
        shortest_paths::johnsons(n, D1, se, ew); shortest_paths::floyd_warshall(n, D2, se, ew);
        bool bad = false;
        for (int i = 0; i < n && !bad; i++) { vector<double> d(n); shortest_paths::dijkstra(i, n, d.data(), se, ew);
            for (int j = 0; j < n && !bad; j++) {
                if (!same(D1[i][j], O[i][j])) { ctx.violation("johnsons_wrong", {}, desc, mcx::fmt("D[%d][%d]=%g want %g", i, j, D1[i][j], O[i][j])); bad = true; }
                else if (!same(D2[i][j], O[i][j])) { ctx.violation("floyd_warshall_wrong", {}, desc, mcx::fmt("D[%d][%d]=%g want %g", i, j, D2[i][j], O[i][j])); bad = true; }
                else if (!same(d[j], O[i][j])) { ctx.violation("dijkstra_wrong", {}, desc, mcx::fmt("d[%d][%d]=%g want %g", i, j, d[j], O[i][j])); bad = true; }
                else if (D1[i][j] != D1[j][i] || D2[i][j] != D2[j][i]) { ctx.violation("asymmetric", {}, desc); bad = true; } } }
        // the layout's D matrix for the same graph (weights as edge lengths; zero lengths are replaced by 1 as documented)
        if (!bad && n <= 33) { vpsc::Rectangles rs; for (int i = 0; i < n; i++) rs.push_back(new vpsc::Rectangle(i * 50, i * 50 + 10, 0, 10));
            vector<cola::Edge> ce; cola::EdgeLengths el; vector<E> eff = es; for (auto &e : eff) { ce.push_back({e.u, e.v}); el.push_back(e.w); if (e.w <= 0) e.w = 1; }
            auto O2 = bellman(n, eff); cola::ConstrainedFDLayout alg(rs, ce, 30, el); vector<double> D = alg.readLinearD();
            for (int i = 0; i < n && !bad; i++) for (int j = 0; j < n; j++) { double want = (O2[i][j] == DBL_MAX) ? DBL_MAX : (i == j ? 0 : 30 * O2[i][j]); if (!same(D[n * i + j], want)) { ctx.violation("layout_D_wrong", {}, desc, mcx::fmt("D[%d][%d]=%g want %g", i, j, D[n * i + j], want)); bad = true; break; } }
            for (auto r : rs) delete r; }
        for (int i = 0; i < n; i++) { delete[] D1[i]; delete[] D2[i]; } delete[] D1; delete[] D2;
        g_scale = 1;
        ctx.done_case();
    }
}
int main(int argc, char **argv) {
    ctx.init(argc, argv);
    if (!ctx.c15()) freopen("/dev/null", "w", stderr);   // ConstrainedFDLayout warns on every non-positive length (under the sanitised build stderr carries the reports)
    bool T = ctx.thorough();
    vector<double> ws = {0, 0.5, 1, 2}, wl = {-1, 0, 0.5, 2};
    run(1, 2, ws, false); run(2, 4, ws, false); run(3, 4, ws, false); run(4, 3, ws, false);
    run(2, 3, wl, true); run(3, 3, wl, true); families(T);
    run(4, 4, ws, false); run(5, 3, ws, false); run(4, 3, wl, true); run(3, 4, wl, true); run(5, 4, {0.5, 1}, false); run(6, 3, {0.5, 1}, false); run(5, 4, ws, false); run(4, 4, wl, true);
    if (T) { run(4, 5, {0, 0.5, 2}, false); run(6, 4, {1}, false); run(5, 5, {0.5, 1}, false); run(4, 5, {-1, 0, 2}, true); }
    return ctx.finish();
}
