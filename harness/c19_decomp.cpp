// C19: peel / getConnComps / Tree::symmetricLayout / OrthoPlanariser on every small labelled graph.
#include <array>
#include <memory>
#include "libdialect/libdialect.h"
#include "libdialect/io.h"
#include "libdialect/peeling.h"
#include "libdialect/trees.h"
#include "libdialect/graphs.h"
#include "libdialect/routing.h"
#include "libdialect/opts.h"
#include "libdialect/planarise.h"
#include <sstream>
#include <cmath>
#include <set>
#include <map>
#include <vector>
#include <functional>
#include "mcx/mcx.h"
using namespace dialect; using namespace std;
static mcx::Ctx ctx;
typedef vector<pair<int, int>> EL;
static int ncomp(int n, const EL &es) { vector<int> p(n); for (int i = 0; i < n; i++) p[i] = i; function<int(int)> f = [&](int x) { return p[x] == x ? x : p[x] = f(p[x]); }; for (auto &e : es) p[f(e.first)] = f(e.second); set<int> r; for (int i = 0; i < n; i++) r.insert(f(i)); return r.size(); }
static string gstr(int n, const EL &es) { string s = mcx::fmt("n=%d edges:", n); for (auto &e : es) s += mcx::fmt(" %d-%d", e.first, e.second); return s; }
static string tglf(int n, const EL &es, int geom) {
    ostringstream t; int gx[8] = {0, 2, 1, 0, 2, 1, 3, 3}, gy[8] = {0, 0, 1, 2, 2, 3, 1, 3};
    for (int i = 0; i < n; i++) { if (geom == 0) { double a = 2 * M_PI * i / n; t << i << " " << 100 + 80 * cos(a) << " " << 100 + 80 * sin(a) << " 30 30\n"; } else t << i << " " << 100 * gx[i] + (i % 2 ? 7 : 0) << " " << 100 * gy[i] + (i % 3 ? 11 : 0) << " 30 30\n"; }
    t << "#\n"; for (auto &e : es) t << e.first << " " << e.second << "\n"; return t.str();
}
typedef pair<id_type, id_type> IdE;
static IdE key(Edge_SP e) { auto p = e->getEndIds(); return {min(p.first, p.second), max(p.first, p.second)}; }

static void check_peel(int n, const EL &es) {
    string desc = "peel " + gstr(n, es), why;
    try {
        string s = tglf(n, es, 0); Graph_SP g = buildGraphFromTglf(s);
        set<IdE> origE; for (auto &p : g->getEdgeLookup()) origE.insert(key(p.second));
        set<id_type> origN; for (auto &p : g->getNodeLookup()) origN.insert(p.first);
        Trees trees = peel(*g); ctx.count("transitions");
        map<id_type, int> count; set<IdE> seenE;
        for (auto &p : g->getNodeLookup()) count[p.first]++;
        for (auto &p : g->getEdgeLookup()) if (!seenE.insert(key(p.second)).second) why = "edge in two parts";
        if (g->getNumNodes() > 1) { for (auto &p : g->getNodeLookup()) if (p.second->getDegree() == 1) why = "non-empty core has a node of degree one"; }
        if (!trees.empty()) ctx.count("nontrivial");
        ctx.cls("trees_peeled", mcx::fmt("%zu", trees.size()));
        bool coreEmpty = g->getNumNodes() == 0;
        for (auto &tr : trees) {
            Graph_SP tg = tr->underlyingGraph();
            if (tg->getNumEdges() != tg->getNumNodes() - 1) why = "tree has |E| != |V|-1";
            id_type rootId = tr->getRootNode()->id();
            for (auto &p : tg->getNodeLookup()) {
                if (p.first == rootId) { if (!coreEmpty && !count.count(p.first)) why = "tree root not in core"; if (coreEmpty) count[p.first]++; }
                else { if (count.count(p.first)) why = "non-root tree node belongs to two parts"; count[p.first]++; }
            }
            for (auto &p : tg->getEdgeLookup()) if (!seenE.insert(key(p.second)).second) why = "edge in two parts";
            map<id_type, vector<id_type>> adj; for (auto &p : tg->getEdgeLookup()) { auto e = p.second->getEndIds(); adj[e.first].push_back(e.second); adj[e.second].push_back(e.first); }
            set<id_type> seen; vector<id_type> st{rootId}; while (!st.empty()) { id_type u = st.back(); st.pop_back(); if (!seen.insert(u).second) continue; for (auto w : adj[u]) st.push_back(w); }
            if (seen.size() != tg->getNumNodes()) why = "tree disconnected";
        }
        if (seenE != origE) why = why.empty() ? "edge set not preserved" : why;
        set<id_type> allN; for (auto &p : count) allN.insert(p.first);
        if (allN != origN) why = why.empty() ? "node set not preserved" : why;
    } catch (std::exception &e) { ctx.library_abort(std::string("exception: ") + e.what(), desc); ctx.violation("peel_failed", {}, desc, std::string("exception: ") + e.what()); return; } catch (vpsc::CriticalFailure &f) { ctx.library_abort(f.what(), desc); ctx.violation("peel_failed", {}, desc, f.what().substr(0, 300)); return; }   // every connected simple graph is a valid input: not returning a decomposition is a violation of this property too (in the C15 replay the verdict is muted and the abort itself is the violation)
    if (!why.empty()) ctx.violation("peel_partition", {}, desc, why);
}
static void check_comps(int n, const EL &es) {
    string desc = "getConnComps " + gstr(n, es), why;
    try {
        string s = tglf(n, es, 0); Graph_SP g = buildGraphFromTglf(s);
        vector<Graph_SP> cc = g->getConnComps(); ctx.count("transitions");
        if ((int)cc.size() != ncomp(n, es)) why = mcx::fmt("%zu components, expected %d", cc.size(), ncomp(n, es));
        map<id_type, int> nc; set<IdE> seenE; size_t ne = 0;
        for (auto &c : cc) {
            for (auto &p : c->getNodeLookup()) nc[p.first]++;
            for (auto &p : c->getEdgeLookup()) { ne++; if (!seenE.insert(key(p.second)).second) why = "edge in two components"; auto e = p.second->getEndIds(); if (!c->getNodeLookup().count(e.first) || !c->getNodeLookup().count(e.second)) why = "edge end outside its component"; }
            // each component connected
            map<id_type, vector<id_type>> adj; for (auto &p : c->getEdgeLookup()) { auto e = p.second->getEndIds(); adj[e.first].push_back(e.second); adj[e.second].push_back(e.first); }
            set<id_type> seen; vector<id_type> st{c->getNodeLookup().begin()->first}; while (!st.empty()) { id_type u = st.back(); st.pop_back(); if (!seen.insert(u).second) continue; for (auto w : adj[u]) st.push_back(w); }
            if (seen.size() != c->getNumNodes()) why = "component not connected";
        }
        for (auto &p : g->getNodeLookup()) if (nc[p.first] != 1) why = "node not in exactly one component";
        if (ne != g->getNumEdges()) why = "edge count differs";
        if (cc.size() > 1) ctx.count("nontrivial");
    } catch (std::exception &e) { ctx.library_abort(std::string("exception: ") + e.what(), desc); return; } catch (vpsc::CriticalFailure &f) { ctx.library_abort(f.what(), desc); return; }
    if (!why.empty()) ctx.violation("components_partition", {}, desc, why);
}
// rooted labelled trees via Pruefer-free enumeration: parent[i] < i for i>=1 (every rooted tree shape occurs)
static void check_tree_layout(int n, const vector<int> &parent, CardinalDir dir, bool convex, int sizes = 0) {
    EL es; for (int i = 1; i < n; i++) es.push_back({parent[i], i});
    string desc = "symmetricLayout " + gstr(n, es) + mcx::fmt(" root=0 growth=%d convex=%d nodeSep=10 rankSep=70 (nodes %s)", (int)dir, convex, sizes ? "of mixed sizes: 30x30 / 60x30 / 30x60 by id" : "30x30"), why;
    try {
        string s = tglf(n, es, 0); Graph_SP g = buildGraphFromTglf(s);
        if (sizes) for (auto &p : g->getNodeLookup()) { int e = p.second->getExternalId(); if (e % 3 == 1) p.second->setDims(60, 30); else if (e % 3 == 2) p.second->setDims(30, 60); }
        Node_SP root; for (auto &p : g->getNodeLookup()) if (p.second->getExternalId() == 0) root = p.second;
        Tree t(g, root); t.symmetricLayout(dir, 10, sizes ? 70 : 50, convex); ctx.count("transitions");
        vector<Avoid::Point> c; vector<pair<double, double>> d; for (auto &p : g->getNodeLookup()) { c.push_back(p.second->getCentre()); d.push_back(p.second->getDimensions()); }
        for (size_t i = 0; i < c.size(); i++) { if (!(c[i].x == c[i].x) || std::isinf(c[i].x) || !(c[i].y == c[i].y)) why = "non-finite coordinate";
            for (size_t j = i + 1; j < c.size(); j++) { double ox = (d[i].first + d[j].first) / 2 - fabs(c[i].x - c[j].x), oy = (d[i].second + d[j].second) / 2 - fabs(c[i].y - c[j].y); if (ox > 1e-6 && oy > 1e-6) why = mcx::fmt("nodes %zu and %zu on top of each other", i, j); } }
        ctx.count("nontrivial");
    } catch (std::exception &e) { ctx.library_abort(std::string("exception: ") + e.what(), desc); return; } catch (vpsc::CriticalFailure &f) { ctx.library_abort(f.what(), desc); return; }
    if (!why.empty()) ctx.violation("tree_nodes_coincide", {}, desc, why);
}
struct Sg { double ax, ay, bx, by; };
static bool properCross(const Sg &s, const Sg &t) {
    bool sh = fabs(s.ay - s.by) < 1e-9, th = fabs(t.ay - t.by) < 1e-9; if (sh == th) return false;
    const Sg &h = sh ? s : t; const Sg &v = sh ? t : s; double hx0 = min(h.ax, h.bx), hx1 = max(h.ax, h.bx), vy0 = min(v.ay, v.by), vy1 = max(v.ay, v.by);
    return v.ax > hx0 + 1e-9 && v.ax < hx1 - 1e-9 && h.ay > vy0 + 1e-9 && h.ay < vy1 - 1e-9;
}
// planarise an already routed graph and judge the result; returns a non-empty reason on a violation
static string planarise_and_judge(Graph_SP g, bool drawingClauses = true) {
    string why;
    vector<vector<Sg>> segs; for (auto &p : g->getEdgeLookup()) { vector<Avoid::Point> r = p.second->getRoute(); vector<Sg> v; for (size_t k = 1; k < r.size(); k++) v.push_back({r[k - 1].x, r[k - 1].y, r[k].x, r[k].y}); segs.push_back(v); }
    bool cr = false; for (size_t a = 0; a < segs.size(); a++) for (size_t b = a + 1; b < segs.size(); b++) for (auto &x : segs[a]) for (auto &y : segs[b]) if (properCross(x, y)) cr = true;
    if (cr) ctx.count("nontrivial");
    set<id_type> orig; for (auto &p : g->getNodeLookup()) orig.insert(p.first);
    set<IdE> origAdj; for (auto &p : g->getEdgeLookup()) origAdj.insert(key(p.second));
    OrthoPlanariser op(g); Graph_SP Q = op.planarise(); ctx.count("transitions");
    for (id_type id : orig) if (!Q->getNodeLookup().count(id)) why = "original node missing";
    vector<vector<Sg>> qs;
    for (auto &p : Q->getEdgeLookup()) { vector<Avoid::Point> r = p.second->getRoute(); vector<Sg> v;
        if (r.size() < 2) { Node_SP a = Q->getNodeLookup().at(p.second->getEndIds().first), b = Q->getNodeLookup().at(p.second->getEndIds().second); v.push_back({a->getCentre().x, a->getCentre().y, b->getCentre().x, b->getCentre().y}); }
        for (size_t k = 1; k < r.size(); k++) v.push_back({r[k - 1].x, r[k - 1].y, r[k].x, r[k].y}); qs.push_back(v); }
    for (size_t a = 0; a < qs.size(); a++) for (size_t b = a + 1; b < qs.size(); b++) for (auto &x : qs[a]) for (auto &y : qs[b]) if (properCross(x, y)) why = "two edges still cross";
    // ... the drawing itself: no new node lies
    // strictly inside an edge it does not end, and every NEW node lies on an original route (a bend) or on two of them (a crossing)
    if (why.empty() && drawingClauses) {
        auto onOrig = [&](double x, double y) { int c = 0; for (auto &v : segs) { bool on = false; for (auto &g2 : v) if (fabs((g2.bx - g2.ax) * (y - g2.ay) - (x - g2.ax) * (g2.by - g2.ay)) < 1e-6 && x >= min(g2.ax, g2.bx) - 1e-6 && x <= max(g2.ax, g2.bx) + 1e-6 && y >= min(g2.ay, g2.by) - 1e-6 && y <= max(g2.ay, g2.by) + 1e-6) on = true; if (on) c++; } return c; };
        for (auto &p : Q->getNodeLookup()) if (!orig.count(p.first)) { Avoid::Point c = p.second->getCentre(); if (onOrig(c.x, c.y) < 1) { why = mcx::fmt("new node %u at (%g,%g) lies on no original route", p.first, c.x, c.y); break; } }
        if (why.empty()) for (auto &p : Q->getEdgeLookup()) { Node_SP a = Q->getNodeLookup().at(p.second->getEndIds().first), b = Q->getNodeLookup().at(p.second->getEndIds().second); Avoid::Point ca = a->getCentre(), cb = b->getCentre();
            for (auto &q : Q->getNodeLookup()) if (q.first != a->id() && q.first != b->id() && !orig.count(q.first)) { Avoid::Point c = q.second->getCentre(); double cr2 = (cb.x - ca.x) * (c.y - ca.y) - (c.x - ca.x) * (cb.y - ca.y), dt = (c.x - ca.x) * (cb.x - ca.x) + (c.y - ca.y) * (cb.y - ca.y), L = (cb.x - ca.x) * (cb.x - ca.x) + (cb.y - ca.y) * (cb.y - ca.y);
                if (p.second->getRoute().size() <= 2 && fabs(cr2) < 1e-6 && dt > 1e-6 && dt < L - 1e-6) { why = mcx::fmt("new node %u at (%g,%g) lies inside the edge %u-%u", q.first, c.x, c.y, a->id(), b->id()); break; } }
            if (!why.empty()) break; }
    }
    // every original adjacency survives as a chain through new (dummy) nodes only
    if (why.empty()) {
        map<id_type, vector<id_type>> adj; for (auto &p : Q->getEdgeLookup()) { auto e = p.second->getEndIds(); adj[e.first].push_back(e.second); adj[e.second].push_back(e.first); }
        for (auto &oe : origAdj) {
            set<id_type> seen; vector<id_type> st{oe.first}; bool found = false;
            while (!st.empty() && !found) { id_type u = st.back(); st.pop_back(); if (!seen.insert(u).second) continue; for (auto w : adj[u]) { if (w == oe.second) { found = true; break; } if (!orig.count(w) || !drawingClauses) st.push_back(w); } }   // (merged near-collinear lines: an original node may lie ON the merged line of another edge, so the chain may pass it)
            if (!found) { why = mcx::fmt("former neighbours %u,%u no longer connected through new nodes", oe.first, oe.second); break; }
        }
    }
    return why;
}
static void check_planarise(int n, const EL &es) {
    string desc = "planarise " + gstr(n, es), why;
    try {
        string s = tglf(n, es, 1); Graph_SP g = buildGraphFromTglf(s); HolaOpts opts;
        LeaflessOrthoRouter lor(g, opts); lor.setShapeBufferDistanceIELScalar(0.125); lor.route();
        why = planarise_and_judge(g);
    } catch (std::exception &e) { ctx.library_abort(std::string("exception: ") + e.what(), desc); return; } catch (vpsc::CriticalFailure &f) { ctx.library_abort(f.what(), desc); return; }
    if (!why.empty()) ctx.violation("planarise", {}, desc, why);
}
// the SAME Graph routed (Graph::route) and planarised, its nodes moved, routed and planarised again: 4 nodes 30x30 on the cells of a 3x2 grid
// (spacing 100), two edge sets, every ordered pair of placements.  An exception out of planarise() on a validly routed graph is a violation too.
static void replanarise_phase(int edgeSet) {
    static const double CX[6] = {0, 100, 200, 0, 100, 200}, CY[6] = {0, 0, 0, 100, 100, 100};
    vector<array<int, 4>> pl; for (int a = 0; a < 6; a++) for (int b = 0; b < 6; b++) for (int c = 0; c < 6; c++) for (int d = 0; d < 6; d++) if (a != b && a != c && a != d && b != c && b != d && c != d) pl.push_back({a, b, c, d});
    ctx.phase(mcx::fmt("route + planarise, move the nodes, route + planarise again on the SAME Graph: 4 nodes on a 3x2 grid, edges %s, every ordered pair of %zu placements", edgeSet == 0 ? "0-1 2-3" : "0-1 1-2 2-3", pl.size()));
    for (size_t i = 0; i < pl.size(); i++) for (size_t j = 0; j < pl.size(); j++) {
        if (ctx.stopped()) return; if (i == j) continue; if (!ctx.next()) continue;
        string desc = mcx::fmt("re-planarise edges#%d placements (%d,%d,%d,%d) -> (%d,%d,%d,%d)", edgeSet, pl[i][0], pl[i][1], pl[i][2], pl[i][3], pl[j][0], pl[j][1], pl[j][2], pl[j][3]);
        ctx.count("states"); ctx.sample(desc, 1); string why;
        try {
            Graph_SP g = std::make_shared<Graph>(); vector<Node_SP> ns; for (int k = 0; k < 4; k++) ns.push_back(g->addNode(CX[pl[i][k]], CY[pl[i][k]], 30, 30));
            g->addEdge(ns[0], ns[1]); if (edgeSet) g->addEdge(ns[1], ns[2]); g->addEdge(ns[2], ns[3]);
            g->route(Avoid::OrthogonalRouting); why = planarise_and_judge(g);
            if (why.empty()) { for (int k = 0; k < 4; k++) ns[k]->setCentre(CX[pl[j][k]], CY[pl[j][k]]); g->route(Avoid::OrthogonalRouting); why = planarise_and_judge(g); if (!why.empty()) why = "after the move: " + why; }
        } catch (std::exception &e) { why = std::string("planarise/route threw ") + e.what(); } catch (vpsc::CriticalFailure &f) { ctx.library_abort(f.what(), desc); ctx.done_case(); continue; }
        if (!why.empty()) ctx.violation("planarise", {"history"}, desc, why);
        ctx.done_case();
    }
}


// hand-routed line arrangements: up to three horizontal and three vertical straight connectors (each between its own two small end nodes), each present over
// any sub-extent of four stations or absent -- every arrangement.  A line is then crossed 0..3 times; the expected crossing points are known exactly.
static void grid_planarise_phase(int NH, int NV) {
    static const double ST[4] = {50, 150, 250, 350}, LN[3] = {100, 200, 300};
    vector<pair<int, int>> ext; ext.push_back({-1, -1}); for (int a = 0; a < 4; a++) for (int b = a + 1; b < 4; b++) ext.push_back({a, b});
    ctx.phase(mcx::fmt("planarise hand-routed arrangements of up to %d horizontal and %d vertical straight connectors, every sub-extent of each: dummy nodes exactly at the crossing points", NH, NV));
    vector<int> idx(NH + NV, 0);
    do {
        if (ctx.stopped()) return; if (!ctx.next()) continue;
        ostringstream t, e; int n = 0; vector<array<double, 4>> lines; string desc = "planarise lines:";
        for (int k = 0; k < NH + NV; k++) { auto x = ext[idx[k]]; if (x.first < 0) continue; bool hz = k < NH; double c = LN[hz ? k : k - NH], a = ST[x.first], b = ST[x.second];
            double x0 = hz ? a : c, y0 = hz ? c : a, x1 = hz ? b : c, y1 = hz ? c : b; t << n << " " << x0 << " " << y0 << " 10 10\n" << n + 1 << " " << x1 << " " << y1 << " 10 10\n"; e << n << " " << n + 1 << " " << x0 << " " << y0 << " " << x1 << " " << y1 << "\n"; n += 2;
            lines.push_back({{x0, y0, x1, y1}}); desc += mcx::fmt(" %s%g[%g..%g]", hz ? "y=" : "x=", c, a, b); }
        if (n == 0) { ctx.done_case(); continue; }
        set<pair<double, double>> want; for (auto &h : lines) for (auto &v : lines) if (h[1] == h[3] && v[0] == v[2] && v[0] > h[0] && v[0] < h[2] && h[1] > v[1] && h[1] < v[3]) want.insert({v[0], h[1]});
        ctx.count("states"); ctx.sample(desc, 1); if (want.size() >= 2) ctx.count("nontrivial"); string why;
        try { string str = t.str() + "#\n" + e.str(); Graph_SP g = buildGraphFromTglf(str); set<id_type> orig; for (auto &p : g->getNodeLookup()) orig.insert(p.first);
            why = planarise_and_judge(g);
            if (why.empty()) { OrthoPlanariser op(g); Graph_SP Q = op.planarise(); multiset<pair<double, double>> got; for (auto &p : Q->getNodeLookup()) if (!orig.count(p.first)) got.insert({p.second->getCentre().x, p.second->getCentre().y});
                for (auto &w : want) if (got.count(w) != 1) why = mcx::fmt("%zu new node(s) at the crossing point (%g,%g)", got.count(w), w.first, w.second);
                for (auto &q : got) if (!want.count(q)) why = mcx::fmt("a new node at (%g,%g), which is not a crossing point", q.first, q.second); }
        } catch (std::exception &ex) { why = std::string("planarise threw ") + ex.what(); } catch (vpsc::CriticalFailure &f) { ctx.library_abort(f.what(), desc); ctx.done_case(); continue; }
        if (!why.empty()) ctx.violation("planarise", {}, desc, why);
        ctx.done_case();
    } while (mcx::odo_next(idx, (int)ext.size()));
}
// Near-collinear lines: the planariser merges route segments whose coordinates agree to within half a unit (a running mean per group).  Vertical
// connectors on x = 100, 100.4, 100.6 (pairwise within / just outside that tolerance), each absent or with one of three extents, optionally four more
// verticals further left, and up to three horizontal connectors that cross them or end between them.  Only the property's own clauses are judged here
// (nodes kept, no two edges cross, former neighbours still joined -- through any nodes: when two overlapping near-collinear connectors are merged onto one
// line the end node of the shorter one lies ON the longer one): the merged lines are moved by up to the tolerance, so new nodes need not lie on the routes as given.
static void near_collinear_planarise_phase() {
    ctx.phase("planarise near-collinear verticals x in {100, 100.4, 100.6} (x every extent) with nothing / 4 verticals / a straight column of 4 collinear edges to their left and up to three horizontals");
    static const double NX[3] = {100, 100.4, 100.6}; static const double VE[4][2] = {{0, 0}, {50, 250}, {150, 350}, {50, 350}}; static const double HY[3] = {100, 200, 300}; static const double HE[3][2] = {{0, 0}, {10, 150}, {90, 150}};
    for (int left = 0; left < 3; left++) for (int vm = 1; vm < 64; vm++) for (int hm = 1; hm < 27; hm++) {
        if (ctx.stopped()) return; if (!ctx.next()) continue;
        ostringstream t, e; int n = 0; string desc = mcx::fmt("planarise near-collinear: %s on the left;", left == 0 ? "nothing" : left == 1 ? "4 verticals" : "a straight column of 4 edges (a path of 5 nodes on x=20)");
        auto add = [&](double x0, double y0, double x1, double y1) { t << n << " " << x0 << " " << y0 << " 4 4\n" << n + 1 << " " << x1 << " " << y1 << " 4 4\n"; e << n << " " << n + 1 << " " << x0 << " " << y0 << " " << x1 << " " << y1 << "\n"; n += 2; };
        if (left == 1) for (double x : {20.0, 40.0, 60.0, 80.0}) add(x, 30, x, 370);
        if (left == 2) { for (int i = 0; i < 5; i++) t << n + i << " 20 " << 30 + 80 * i << " 4 4\n"; for (int i = 0; i < 4; i++) e << n + i << " " << n + i + 1 << " 20 " << 30 + 80 * i << " 20 " << 30 + 80 * (i + 1) << "\n"; n += 5; }
        int v = vm; for (int k = 0; k < 3; k++) { int ex = v % 4; v /= 4; if (ex) { add(NX[k], VE[ex][0], NX[k], VE[ex][1]); desc += mcx::fmt(" x=%g[%g..%g]", NX[k], VE[ex][0], VE[ex][1]); } }
        int h = hm; for (int k = 0; k < 3; k++) { int ex = h % 3; h /= 3; if (ex) { add(HE[ex][0], HY[k], HE[ex][1], HY[k]); desc += mcx::fmt(" y=%g[%g..%g]", HY[k], HE[ex][0], HE[ex][1]); } }
        ctx.count("states"); ctx.sample(desc, 1); string why;
        try { string str = t.str() + "#\n" + e.str(); Graph_SP g = buildGraphFromTglf(str); why = planarise_and_judge(g, false); }
        catch (std::exception &ex) { why = std::string("planarise threw ") + ex.what(); } catch (vpsc::CriticalFailure &f) { ctx.library_abort(f.what(), desc); ctx.done_case(); continue; }
        // input class of KF-C19-1: after the planariser's own grouping (sorted coordinates, a coordinate joins the current group when it is within 0.5 of the group's
        // running mean) two DIFFERENT groups of verticals are still within 0.8 of each other and two of their segments overlap in y: the crossing sweep puts
        // them into one x-part (tolerance 0.8), where a single 'open vertical' pointer is kept, and misses the crossings of one of them
        vector<string> kc; { vector<array<double, 3>> vs; int v2 = vm; for (int k = 0; k < 3; k++) { int ex = v2 % 4; v2 /= 4; if (ex) vs.push_back({{NX[k], VE[ex][0], VE[ex][1]}}); }
            vector<int> grp(vs.size()); double mean = 0; int cntg = 0, gi = -1; for (size_t i = 0; i < vs.size(); i++) { if (gi < 0 || vs[i][0] - mean > 0.5) { gi++; mean = vs[i][0]; cntg = 1; } else { mean = (mean * cntg + vs[i][0]) / (cntg + 1); cntg++; } grp[i] = gi; }
            vector<double> gm(gi + 1, 0), gc(gi + 1, 0); for (size_t i = 0; i < vs.size(); i++) { gm[grp[i]] += vs[i][0]; gc[grp[i]]++; } for (int g2 = 0; g2 <= gi; g2++) gm[g2] /= gc[g2];
            for (size_t i = 0; i < vs.size(); i++) for (size_t j = i + 1; j < vs.size(); j++) if (grp[i] != grp[j] && fabs(gm[grp[i]] - gm[grp[j]]) <= 0.8 && min(vs[i][2], vs[j][2]) > max(vs[i][1], vs[j][1])) { if (kc.empty()) kc.push_back("parallel_segments_within_0.8_left_unmerged"); } }
        if (!why.empty()) ctx.violation("planarise", kc, desc, why);
        ctx.done_case();
    }
}
template <class F> static void all_graphs(int n, bool connectedOnly, F f) {
    EL all; for (int i = 0; i < n; i++) for (int j = i + 1; j < n; j++) all.push_back({i, j});
    for (unsigned mask = 0; mask < (1u << all.size()) && !ctx.stopped(); mask++) {
        EL es; for (size_t k = 0; k < all.size(); k++) if (mask >> k & 1) es.push_back(all[k]);
        if (connectedOnly && ncomp(n, es) != 1) continue;
        f(es);
    }
}
int main(int argc, char **argv) {
    ctx.init(argc, argv);
    bool T = ctx.thorough();
    for (int n = 2; n <= (T ? 7 : 6); n++) { ctx.phase(mcx::fmt("peel: all labelled connected simple graphs n=%d", n)); all_graphs(n, true, [&](const EL &es) { if (!ctx.next()) return; ctx.count("states"); ctx.sample(gstr(n, es)); check_peel(n, es); ctx.done_case(); }); }
    for (int n = 1; n <= (T ? 6 : 5); n++) { ctx.phase(mcx::fmt("getConnComps: all labelled simple graphs n=%d", n)); all_graphs(n, false, [&](const EL &es) { if (!ctx.next()) return; ctx.count("states"); ctx.sample(gstr(n, es)); check_comps(n, es); ctx.done_case(); }); }
    for (int n = 2; n <= (T ? 8 : 6); n++) {
        ctx.phase(mcx::fmt("symmetricLayout: rooted trees n=%d (parent[i]<i) x 4 growth directions x ordering", n));
        vector<int> par(n, 0); vector<int> radix(n, 1); for (int i = 1; i < n; i++) radix[i] = i;
        do { if (!ctx.next()) continue; ctx.count("states"); string s; for (int i = 1; i < n; i++) s += mcx::fmt("%d<-%d ", i, par[i]); ctx.sample(s);
             for (CardinalDir d : {CardinalDir::EAST, CardinalDir::SOUTH, CardinalDir::WEST, CardinalDir::NORTH}) for (bool cv : {true, false}) { check_tree_layout(n, par, d, cv); check_tree_layout(n, par, d, cv, 1); }
             ctx.done_case(); } while (mcx::odo_next(par, radix) && !ctx.stopped());
    }
    // every UNLABELLED rooted tree (Beyer-Hedetniemi level sequences, lexicographic successor): the layout sorts the child
    // subtrees of every node by isomorphism class itself, so the order of children in the input is immaterial and one
    // representative per isomorphism class is exhaustive for the tree shapes
    for (int n = 7; n <= (T ? 17 : 15); n++) {
        ctx.phase(mcx::fmt("symmetricLayout: every unlabelled rooted tree n=%d x 2 growth directions x ordering", n));
        vector<int> L(n); for (int i = 0; i < n; i++) L[i] = i;   // level sequence of the path
        for (;;) {
            if (ctx.stopped()) break;
            if (ctx.next()) { vector<int> par(n, 0); vector<int> last(n + 1, 0); for (int i = 1; i < n; i++) { par[i] = last[L[i] - 1]; last[L[i]] = i; }
                ctx.count("states"); string ss; for (int i = 1; i < n; i++) ss += mcx::fmt("%d<-%d ", i, par[i]); ctx.sample(ss, 1);
                for (CardinalDir d : {CardinalDir::EAST, CardinalDir::SOUTH}) for (bool cv : {true, false}) { check_tree_layout(n, par, d, cv); if (n <= (T ? 13 : 11)) check_tree_layout(n, par, d, cv, 1); }
                ctx.done_case(); }
            // successor: find last position p with L[p] > 1, then repeat the segment starting at its new parent position
            int p = n - 1; while (p > 0 && L[p] == 1) p--; if (p <= 0) break;
            int q = p - 1; while (L[q] != L[p] - 1) q--;
            for (int i = p; i < n; i++) L[i] = L[i - (p - q)];
        }
    }
    for (int n = 3; n <= (T ? 6 : 5); n++) {
        ctx.phase(mcx::fmt("planarise: all labelled leafless connected graphs n=%d routed by LeaflessOrthoRouter", n));
        all_graphs(n, true, [&](const EL &es) { vector<int> deg(n, 0); for (auto &e : es) { deg[e.first]++; deg[e.second]++; } for (int d : deg) if (d < 2) return; if (!ctx.next()) return; ctx.count("states"); ctx.sample(gstr(n, es)); check_planarise(n, es); ctx.done_case(); });
    }
        near_collinear_planarise_phase(); grid_planarise_phase(2, 2); grid_planarise_phase(2, 3); if (T) grid_planarise_phase(3, 3);
    replanarise_phase(0); if (T) replanarise_phase(1);
    return ctx.finish();
}
