// C15 (engine 1): every legal sequence (to a depth bound) of documented Avoid::Router API calls, ending with the
// destruction of the router, executed in the sanitised build.  Oracle: no ASan/UBSan report, no failed internal
// assertion, termination, and the live-allocation count returns to its value from before the router was created.
#include "libavoid/libavoid.h"
#include <string>
#include <vector>
#include "mcx/mcx.h"
#include "mcx/arena.h"
using namespace Avoid; using namespace std;
static mcx::Ctx ctx;
enum { ADD_SHAPE0, ADD_SHAPE1, MOVE0, MOVE1, DEL0, DEL1, ADD_PIN0, ADD_JUNC, MOVE_JUNC, DEL_JUNC, ADD_CONN_PT, ADD_CONN_PIN, ADD_CONN_JUNC, ADD_CONN2, SET_END, DEL_CONN, SET_OPT, REG_HYPER, PROCESS, SET_CKPT, CLR_CKPT, RESIZE0, SPLIT, FIX_EXISTING, FIX_ROUTE, CLEAR_FIXED, INVALIDATE, ADD_CONN_SELF_PIN, ADD_CONN_SELF_JUNC, ADD_CONN_PIN_JUNC, MERGE_SPLIT, ADD_CLUSTER, MOVE_CLUSTER, DEL_CLUSTER, NOPS };
static const char *NAMES[] = {"addShape0", "addShape1", "moveShape0", "moveShape1", "deleteShape0", "deleteShape1", "addPin(shape0)", "addJunction", "moveJunction", "deleteJunction", "addConn(point,point)", "addConn(shape0.pin,point)", "addConn(junction,point)", "addConn2(point,point)", "setDestEndpoint(conn)", "deleteConnector(conn)", "setRoutingOption/Parameter", "registerHyperedgeForRerouting(junction)", "processTransaction", "setRoutingCheckpoints", "clearRoutingCheckpoints", "resizeShape0", "splitAtSegment(1)", "setFixedExistingRoute", "setFixedRoute", "clearFixedRoute", "makePathInvalid", "addConn(shape0.pin,shape0.pin)", "addConn(junction,junction)", "addConn(shape0.pin,junction)", "removeJunctionAndMergeConnectors(split junction)", "addCluster(round shape0's place)", "cluster.setNewPoly", "deleteCluster"};
struct World {
    Router *r; ShapeRef *s[2]; JunctionRef *j; ConnRef *c, *c2; bool pin0, pendAdd[2], pendDel[2], jPendAdd, jPendDel, cOnJunc, cOnPin, cRouted = false, cFixed = false; int opt; JunctionRef *j2 = nullptr; ConnRef *c3 = nullptr; ClusterRef *cl = nullptr;
    World(int mode, bool trans) { r = new Router(mode); r->setTransactionUse(trans); s[0] = s[1] = nullptr; j = nullptr; c = c2 = nullptr; pin0 = false; pendAdd[0] = pendAdd[1] = pendDel[0] = pendDel[1] = jPendAdd = jPendDel = cOnJunc = cOnPin = false; opt = 0; }
    bool tx() { return r->transactionUse(); }
    // false = the operation is not legal in this state (documented preconditions only)
    bool apply(int op) {
        switch (op) {
        case ADD_SHAPE0: case ADD_SHAPE1: { int i = op - ADD_SHAPE0; if (s[i]) return false; Rectangle rect(Point(20 + 40 * i, 20), Point(40 + 40 * i, 60)); s[i] = new ShapeRef(r, rect); if (i == 0) pin0 = false; pendAdd[i] = tx(); return true; }
        case MOVE0: case MOVE1: { int i = op - MOVE0; if (!s[i] || pendDel[i]) return false; r->moveShape(s[i], 10, 5); return true; }
        case DEL0: case DEL1: { int i = op - DEL0; if (!s[i] || pendAdd[i] || pendDel[i]) return false; r->deleteShape(s[i]); if (tx()) pendDel[i] = true; else { s[i] = nullptr; if (i == 0) { pin0 = false; cOnPin = false; } } return true; }
        case ADD_PIN0: { if (!s[0] || pin0 || pendDel[0]) return false; new ShapeConnectionPin(s[0], 1, ATTACH_POS_RIGHT, ATTACH_POS_CENTRE, true, 2, ConnDirRight); pin0 = true; return true; }
        case ADD_JUNC: { if (j) return false; j = new JunctionRef(r, Point(60, 90)); jPendAdd = tx(); return true; }
        case MOVE_JUNC: { if (!j || jPendDel) return false; r->moveJunction(j, Point(70, 100)); return true; }
        case DEL_JUNC: { if (!j || jPendAdd || jPendDel) return false; r->deleteJunction(j); if (tx()) jPendDel = true; else { j = nullptr; cOnJunc = false; } return true; }
        case ADD_CONN_PT: { if (c) return false; c = new ConnRef(r, ConnEnd(Point(0, 40)), ConnEnd(Point(120, 45))); return true; }
        case ADD_CONN_PIN: { if (c || !s[0] || !pin0 || pendDel[0]) return false; c = new ConnRef(r, ConnEnd(s[0], 1), ConnEnd(Point(120, 45))); cOnPin = true; return true; }
        case ADD_CONN_JUNC: { if (c || !j || jPendDel) return false; c = new ConnRef(r, ConnEnd(j), ConnEnd(Point(120, 45))); cOnJunc = true; return true; }
        case ADD_CONN_SELF_PIN: { if (c || !s[0] || !pin0 || pendDel[0]) return false; c = new ConnRef(r, ConnEnd(s[0], 1), ConnEnd(s[0], 1)); cOnPin = true; return true; }   // both ends on ONE obstacle
        case ADD_CONN_SELF_JUNC: { if (c || !j || jPendDel) return false; c = new ConnRef(r, ConnEnd(j), ConnEnd(j)); cOnJunc = true; return true; }
        case ADD_CONN_PIN_JUNC: { if (c || !s[0] || !pin0 || pendDel[0] || !j || jPendDel) return false; c = new ConnRef(r, ConnEnd(s[0], 1), ConnEnd(j)); cOnPin = cOnJunc = true; return true; }
        case MERGE_SPLIT: { if (!j2 || !c || !c3) return false; ConnRef *m = j2->removeJunctionAndMergeConnectors(); if (m) { c = m; c3 = nullptr; j2 = nullptr; cRouted = false; } return true; }   // (which of the two connectors survives is the library's choice; the junction is removed by the router)
        case ADD_CONN2: { if (c2) return false; c2 = new ConnRef(r, ConnEnd(Point(60, 0)), ConnEnd(Point(60, 120))); return true; }
        case SET_END: { if (!c || cFixed) return false; cRouted = false; c->setDestEndpoint(ConnEnd(Point(0, 100))); return true; }
        case DEL_CONN: { if (!c) return false; r->deleteConnector(c); c = nullptr; cOnJunc = cOnPin = false; cRouted = cFixed = false; return true; }
        case SET_OPT: { opt++; if (opt % 2) { r->setRoutingOption(nudgeOrthogonalTouchingColinearSegments, true); r->setRoutingParameter(shapeBufferDistance, 4); } else { r->setRoutingParameter(segmentPenalty, 25); r->setRoutingOption(improveHyperedgeRoutesMovingAddingAndDeletingJunctions, true); } return true; }
        case REG_HYPER: { if (!j || jPendAdd || jPendDel || !cOnJunc) return false; return false; /* needs >=3 terminals; covered by the C12 alphabet replayed under sanitizers */ }
        case SET_CKPT: { if (!c) return false; std::vector<Checkpoint> v; v.push_back(Checkpoint(Point(90, 100))); c->setRoutingCheckpoints(v); cRouted = !tx() && cRouted; return true; }
        case CLR_CKPT: { if (!c) return false; std::vector<Checkpoint> v; c->setRoutingCheckpoints(v); return true; }
        case RESIZE0: { if (!s[0] || pendDel[0]) return false; Rectangle rect(Point(15, 20), Point(45, 70)); r->moveShape(s[0], rect); return true; }
        case SPLIT: { if (!c || !cRouted || j2 || cFixed) return false; if (c->displayRoute().size() < 2) return false; std::pair<JunctionRef *, ConnRef *> pr = c->splitAtSegment(1); j2 = pr.first; c3 = pr.second; cRouted = false; return true; }
        case FIX_EXISTING: { if (!c || !cRouted) return false; if (c->displayRoute().size() < 2) return false; c->setFixedExistingRoute(); cFixed = true; return true; }
        case FIX_ROUTE: { if (!c) return false; PolyLine pl(3); pl.ps[0] = Point(0, 40); pl.ps[1] = Point(0, 110); pl.ps[2] = Point(120, 110); c->setFixedRoute(pl); cFixed = true; return true; }
        case CLEAR_FIXED: { if (!c || !cFixed) return false; c->clearFixedRoute(); cFixed = false; cRouted = false; return true; }
        case INVALIDATE: { if (!c) return false; c->makePathInvalid(); return true; }
        case ADD_CLUSTER: { if (cl) return false; bool poly = r->validConnType() == ConnType_PolyLine; /* polyline: boundary points taken from shape vertices (viscluster.h: 'a convex hull consisting of points from the boundaries of shapes') */ Rectangle rect(poly ? Point(20, 20) : Point(10, 10), poly ? Point(40, 60) : Point(50, 70)); cl = new ClusterRef(r, rect); r->setRoutingParameter(clusterCrossingPenalty, 4000); return true; }   // the documented way: constructing it places it into the scene
        case MOVE_CLUSTER: { if (!cl) return false; bool poly = r->validConnType() == ConnType_PolyLine; Rectangle rect(poly ? Point(20, 20) : Point(5, 10), poly ? Point(80, 60) : Point(95, 75)); cl->setNewPoly(rect); return true; }
        case DEL_CLUSTER: { if (!cl) return false; r->deleteCluster(cl); cl = nullptr; return true; }
        case PROCESS: { r->processTransaction(); cRouted = (c != nullptr); for (int i = 0; i < 2; i++) { pendAdd[i] = false; if (pendDel[i]) { s[i] = nullptr; pendDel[i] = false; if (i == 0) { pin0 = false; cOnPin = false; } } } jPendAdd = false; if (jPendDel) { j = nullptr; jPendDel = false; cOnJunc = false; } return true; }
        }
        return false;
    }
};
static long run_seq(const vector<int> &ops, int mode, bool trans, bool &legal, string &assertion) {
    long before = mcx::heap_live_system(); legal = true; assertion.clear();
    try { World w(mode, trans); for (int o : ops) if (!w.apply(o)) { legal = false; break; } delete w.r; }
    catch (vpsc::CriticalFailure &f) { assertion = f.what(); }
    return mcx::heap_live_system() - before;
}
static void phase(int depth, int mode, bool trans, const vector<int> &subset = {}) {
    const int A = subset.empty() ? (int)NOPS : (int)subset.size();   // (an empty subset means the whole alphabet)
    ctx.phase(mcx::fmt("Router histories depth=%d mode=%s transactions=%d over %d operations%s (+ ~Router)", depth, mode == OrthogonalRouting ? "orthogonal" : "polyline", trans, A, subset.empty() ? "" : subset.size() > 20 ? " (the first 27 operations)" : subset.size() == 9 && subset[1] == ADD_CLUSTER ? " (cluster subset)" : subset.size() == 9 ? " (split / merge subset)" : " (object life-cycle subset)"));
    vector<int> sel(depth, 0), idx(depth, 0);
    do {
        if (ctx.stopped()) break;
        for (int k = 0; k < depth; k++) idx[k] = subset.empty() ? sel[k] : subset[sel[k]];
        // cheap legality pre-filter on the first operation to cut enumeration: nothing can be moved/deleted in an empty router
        if (idx[0] == MOVE0 || idx[0] == MOVE1 || idx[0] == DEL0 || idx[0] == DEL1 || idx[0] == ADD_PIN0 || idx[0] == MOVE_JUNC || idx[0] == DEL_JUNC || idx[0] == SET_END || idx[0] == DEL_CONN || idx[0] == REG_HYPER || idx[0] == ADD_CONN_PIN || idx[0] == ADD_CONN_JUNC || idx[0] >= SET_CKPT) continue;
        if (!ctx.next()) continue;
        string desc = mcx::fmt("%s transactions=%d:", mode == OrthogonalRouting ? "orthogonal" : "polyline", trans); for (int o : idx) desc += string(" ") + NAMES[o]; desc += " ~Router";
        ctx.announce(desc);
        bool legal; string as; long d1 = run_seq(idx, mode, trans, legal, as);
        if (legal) {
            ctx.count("evaluations"); ctx.count("states"); ctx.count("transitions", depth + 1); ctx.sample(desc, 3);
            bool pending = idx[depth - 1] != PROCESS; if (pending) ctx.count("nontrivial");
            if (!as.empty()) ctx.library_abort(as, desc);
            else if (d1 > 0) { bool l2; string a2; long d2 = run_seq(idx, mode, trans, l2, a2); if (d2 > 0) ctx.raw_violation("leak", [&] { std::vector<std::string> cl{"site:leak after ~Router"}; for (int o : idx) if (o == ADD_CONN_SELF_JUNC) { cl.push_back("site:leak after ~Router & connector from a junction to itself (cyclic hyperedge)"); break; } return cl; }(), desc, mcx::fmt("%ld allocations still live after the router was destroyed (repeatable)", d2)); }
        } else ctx.count("illegal_sequences_skipped");
        ctx.done_case();
    } while (mcx::odo_next(sel, A));
}
int main(int argc, char **argv) {
    ctx.init(argc, argv); ctx.opt["c15"] = "1";
    bool T = ctx.thorough();
    // the three connectors-between-obstacles operations joined the alphabet last: the deepest level keeps the earlier 27 operations (time), one level less has all 30
    vector<int> first27; for (int o = 0; o < (int)ADD_CONN_SELF_PIN; o++) first27.push_back(o);
    for (int depth = 1; depth <= (T ? 5 : 4); depth++) for (int mode : {(int)PolyLineRouting, (int)OrthogonalRouting}) for (int trans = 1; trans >= 0; trans--) phase(depth, mode, trans, depth == (T ? 5 : 4) ? first27 : vector<int>());
    // depth 5 and 6 over the object life-cycle operations only (objects created, attached to, deleted and processed in different orders)
    vector<int> life = {ADD_SHAPE0, ADD_PIN0, ADD_JUNC, DEL0, DEL_JUNC, ADD_CONN_PT, ADD_CONN_PIN, ADD_CONN_JUNC, DEL_CONN, SET_END, MOVE_JUNC, PROCESS};
    vector<int> splitMerge = {ADD_CONN_PT, ADD_SHAPE0, PROCESS, SPLIT, MERGE_SPLIT, MOVE0, SET_END, DEL_CONN, INVALIDATE};
    for (int depth = 4; depth <= (T ? 7 : 6); depth++) for (int mode : {(int)PolyLineRouting, (int)OrthogonalRouting}) for (int trans = 1; trans >= 0; trans--) phase(depth, mode, trans, splitMerge);
    vector<int> clusters = {ADD_SHAPE0, ADD_CLUSTER, MOVE_CLUSTER, DEL_CLUSTER, ADD_CONN_PT, ADD_CONN2, PROCESS, MOVE0, DEL0};
    for (int depth = 2; depth <= (T ? 6 : 5); depth++) for (int mode : {(int)PolyLineRouting, (int)OrthogonalRouting}) for (int trans = 1; trans >= 0; trans--) phase(depth, mode, trans, clusters);
    vector<int> life15 = life; life15.push_back(ADD_CONN_SELF_PIN); life15.push_back(ADD_CONN_SELF_JUNC); life15.push_back(ADD_CONN_PIN_JUNC);
    for (int depth = 5; depth <= (T ? 7 : 6); depth++) for (int mode : {(int)PolyLineRouting, (int)OrthogonalRouting}) for (int trans = 1; trans >= 0; trans--) phase(depth, mode, trans, depth == (T ? 7 : 6) ? life : life15);
    return ctx.finish();
}
