// C06: every history (to a depth bound) of add / move / delete shape and move-endpoint operations on a live
// Avoid::Router, compared after every transaction with a freshly built router holding the same scene.
#include "libavoid/libavoid.h"
#include <cmath>
#include <cstdlib>
#include <array>
#include <vector>
#include "mcx/mcx.h"
#include "oracle/geom.h"
using namespace std; using namespace geo;
static mcx::Ctx ctx;
static const int S = 10;
struct Rc { int x0, y0, x1, y1; bool alive; bool touched; };   // touched: added or moved after the connectors were first routed
struct Ep { int x0, y0, x1, y1; int a0 = -1; };   // a0 >= 0: the source end is attached to the centre pin of shape a0 (x0,y0 then unused)
struct Op { int kind, a, dx, dy; };   // 0 move shape a by (dx,dy); 1 delete shape a; 2 add shape (list index a); 3 move endpoint: conn a, end dx (0/1), to point index dy; 4 process; 5 resize shape a: dx/dy added to its right/bottom side (moveShape with a new polygon); 6 attach the source end of conn a to the centre pin of shape dx
static Rc g_custom{0, 0, 1, 1, true, false};   // the rectangle added by operation kind 7 (phases that add an arbitrary rectangle)
static const vector<Rc> RL = {{2, 1, 3, 3}, {2, 2, 4, 3}, {1, 2, 2, 5}, {3, 0, 4, 2}, {2, 3, 3, 4}, {4, 2, 5, 5}};
static const vector<Ep> EPS = {{0, 2, 6, 2}, {0, 0, 6, 6}, {1, 0, 5, 6}, {0, 3, 6, 1}, {3, 6, 3, 0}};
static const vector<array<int, 2>> PTS = {{0, 5}, {6, 4}, {3, 5}};
static string op_str(const Op &o) {
    switch (o.kind) { case 0: return mcx::fmt("move(shape%d,%+d,%+d)", o.a, o.dx, o.dy); case 1: return mcx::fmt("delete(shape%d)", o.a); case 2: return mcx::fmt("add(rect#%d)", o.a);
                      case 5: return mcx::fmt("resize(shape%d,%+d,%+d)", o.a, o.dx, o.dy);
                      case 6: return mcx::fmt("setEndpoint(conn%d,src,pin of shape%d)", o.a, o.dx);
                      case 7: return mcx::fmt("add([%d,%d..%d,%d])", g_custom.x0, g_custom.y0, g_custom.x1, g_custom.y1);
                      case 3: return mcx::fmt("setEndpoint(conn%d,%s,(%d,%d))", o.a, o.dx ? "dst" : "src", PTS[o.dy][0], PTS[o.dy][1]); default: return "processTransaction"; }
}
static int g_buf = 0;   // shapeBufferDistance in half cells (phases 'buffer'): grid points one cell... half a cell from a shape lie exactly on the border of its routing polygon
static Avoid::Router *mk(bool ortho, bool transactions) {
    Avoid::Router *r = new Avoid::Router(ortho ? Avoid::OrthogonalRouting : Avoid::PolyLineRouting);
    r->setRoutingParameter(Avoid::segmentPenalty, ortho ? 20 : 0);
    if (g_buf) r->setRoutingParameter(Avoid::shapeBufferDistance, g_buf * S / 2.0);
    if (getenv("VERIF_PROBE_NOINVIS")) r->InvisibilityGrph = false;   // probe only (undocumented public flag)
    if (getenv("VERIF_PROBE_NAIVE")) r->UseLeesAlgorithm = false;
    r->setTransactionUse(transactions);
    return r;
}
static bool g_allowOverlap = false;   // the 'frame' phase: overlapping shapes (the API allows them); validity is then demanded only where the fresh router's route is valid
static bool g_pins = false;   // phases with attached connectors: every shape carries a centre pin of class 1
static Avoid::ShapeRef *mk_shape(Avoid::Router *r, const Rc &c) { Avoid::Rectangle pg(Avoid::Point(c.x0 * S, c.y0 * S), Avoid::Point(c.x1 * S, c.y1 * S)); Avoid::ShapeRef *sh = new Avoid::ShapeRef(r, pg); if (g_pins) new Avoid::ShapeConnectionPin(sh, 1, Avoid::ATTACH_POS_CENTRE, Avoid::ATTACH_POS_CENTRE, true, 0.0, Avoid::ConnDirNone); return sh; }
static Avoid::ConnEnd src_end(const Ep &c, const vector<Avoid::ShapeRef *> &sh) { return c.a0 >= 0 ? Avoid::ConnEnd(sh[c.a0], 1) : Avoid::ConnEnd(Avoid::Point(c.x0 * S, c.y0 * S)); }
static double cost(const Avoid::PolyLine &r, bool ortho) {
    double l = 0; for (size_t i = 1; i < r.size(); i++) l += ortho ? fabs(r.ps[i].x - r.ps[i - 1].x) + fabs(r.ps[i].y - r.ps[i - 1].y) : hypot(r.ps[i].x - r.ps[i - 1].x, r.ps[i].y - r.ps[i - 1].y);
    if (ortho) { int b = 0; for (size_t i = 2; i < r.size(); i++) { bool col = (r.ps[i - 2].x == r.ps[i - 1].x && r.ps[i - 1].x == r.ps[i].x) || (r.ps[i - 2].y == r.ps[i - 1].y && r.ps[i - 1].y == r.ps[i].y); if (!col) b++; } l += 20 * b; }
    return l;
}
static string route_str(const Avoid::PolyLine &r) { string s; for (size_t i = 0; i < r.size(); i++) s += mcx::fmt("(%g,%g)", r.ps[i].x / S, r.ps[i].y / S); return s; }
static bool overlapR(const Rc &P, const Rc &Q) { return !(P.x1 <= Q.x0 || Q.x1 <= P.x0 || P.y1 <= Q.y0 || Q.y1 <= P.y0); }

struct World { vector<Rc> shapes; vector<Ep> conns; };
static string world_str(const World &w) { string s = "shapes:"; for (auto &r : w.shapes) s += r.alive ? mcx::fmt(" [%d,%d..%d,%d]", r.x0, r.y0, r.x1, r.y1) : " [deleted]"; s += " conns:"; for (auto &c : w.conns) s += c.a0 >= 0 ? mcx::fmt(" pin(shape%d)->(%d,%d)", c.a0, c.x1, c.y1) : mcx::fmt(" (%d,%d)->(%d,%d)", c.x0, c.y0, c.x1, c.y1); return s; }

// judge the live router against the model scene and a fresh router
static void judge(const World &w, Avoid::Router *live, const vector<Avoid::ConnRef *> &lc, bool ortho, const string &desc) {
    ctx.count("states");
    // legality of the scene for clauses (i),(ii)
    for (size_t i = 0; i < w.shapes.size(); i++) for (size_t j = i + 1; j < w.shapes.size(); j++) if (w.shapes[i].alive && w.shapes[j].alive && overlapR(w.shapes[i], w.shapes[j]) && !g_allowOverlap) { ctx.count("skipped_overlapping_scene"); return; }
    // with a buffer distance the routing polygons are the shapes grown by it: scenes whose routing polygons overlap or touch (shapes at most twice the buffer apart) are not judged here
    // (overlapping: KF-C03-1; touching: coincident corners of two routing polygons, the through_vertex degeneracy of KF-C03-2/KF-C06-1), and a connector with an end strictly inside a routing polygon is not judged (an end exactly ON its border is)
    if (g_buf) for (size_t i = 0; i < w.shapes.size(); i++) for (size_t j = i + 1; j < w.shapes.size(); j++) if (w.shapes[i].alive && w.shapes[j].alive) { const Rc &P = w.shapes[i], &Q = w.shapes[j];
        if (!(2 * P.x1 + g_buf < 2 * Q.x0 - g_buf || 2 * Q.x1 + g_buf < 2 * P.x0 - g_buf || 2 * P.y1 + g_buf < 2 * Q.y0 - g_buf || 2 * Q.y1 + g_buf < 2 * P.y0 - g_buf)) { ctx.count("skipped_overlapping_routing_polygons"); return; } }
    vector<char> epIn(w.conns.size(), 0);   // connectors with an endpoint ON THE BORDER of a shape of the final scene are not judged (nor, with a buffer, inside a routing polygon)
    vector<unsigned> encl(w.conns.size(), 0);   // shapes that STRICTLY contain an endpoint of the connector: no obstacles for it (C03's reading); the connector is judged like any other
    for (size_t k = 0; k < w.conns.size(); k++) for (auto &s : w.shapes) if (s.alive) for (int q = 0; q < 2; q++) { const Ep &c = w.conns[k]; if (q == 0 && c.a0 >= 0) continue; int x = q ? c.x1 : c.x0, y = q ? c.y1 : c.y0; if (!g_buf && x > s.x0 && x < s.x1 && y > s.y0 && y < s.y1) encl[k] |= 1u << (&s - &w.shapes[0]); else if (x >= s.x0 && x <= s.x1 && y >= s.y0 && y <= s.y1) epIn[k] = 1; if (g_buf && 2 * x > 2 * s.x0 - g_buf && 2 * x < 2 * s.x1 + g_buf && 2 * y > 2 * s.y0 - g_buf && 2 * y < 2 * s.y1 + g_buf) epIn[k] = 1; }
    Avoid::Router *f = mk(ortho, true); vector<Avoid::ShapeRef *> fsh; for (auto &s : w.shapes) fsh.push_back(s.alive ? mk_shape(f, s) : nullptr);
    vector<Avoid::ConnRef *> fc; for (auto &c : w.conns) fc.push_back(new Avoid::ConnRef(f, src_end(c, fsh), Avoid::ConnEnd(Avoid::Point(c.x1 * S, c.y1 * S))));
    f->processTransaction();
    for (size_t k = 0; k < w.conns.size(); k++) {
        if (epIn[k]) { ctx.count("skipped_endpoint_in_shape"); continue; }
        ctx.count("evaluations");
        const Avoid::PolyLine &ri = ortho ? lc[k]->route() : lc[k]->displayRoute(), &rf = ortho ? fc[k]->route() : fc[k]->displayRoute(), &di = lc[k]->displayRoute();
        string obs = "incremental " + route_str(di) + " fresh " + route_str(fc[k]->displayRoute());
        // (i) validity in the final scene
        const Ep &ck = w.conns[k]; bool invalid = false, throughVertex = false, chordNewer = false, epOnRoutingBorder = false;
        // class routing_polygon_chord_or_vertex (buffer phases): a segment of the incremental OR of the fresh route runs through the interior of some shape's routing
        // polygon (the shape grown by the buffer) and (i) both its ends lie on that polygon's border (a chord between two border points: no edge is crossed properly),
        // or (ii) it passes exactly through one of that polygon's vertices.  Both are the degenerate contacts of KF-C03-2 / KF-C06-1 seen on the routing polygon.
        if (g_buf) { double bb = g_buf * S / 2.0; const Avoid::PolyLine *both[2] = {&di, &fc[k]->displayRoute()}; for (const Avoid::PolyLine *rt : both) for (size_t q = 1; q < rt->size(); q++) for (auto &s : w.shapes) if (s.alive) {
            double X0 = s.x0 * S - bb, X1 = s.x1 * S + bb, Y0 = s.y0 * S - bb, Y1 = s.y1 * S + bb; Poly R = rect(X0, Y0, X1, Y1);
            double ax = rt->ps[q - 1].x, ay = rt->ps[q - 1].y, bx = rt->ps[q].x, by = rt->ps[q].y, L = (bx - ax) * (bx - ax) + (by - ay) * (by - ay);
            if (!hitsInteriorD(R, ax, ay, bx, by, 1e-6)) continue;
            auto onB = [&](double x, double y) { return x >= X0 && x <= X1 && y >= Y0 && y <= Y1 && (x == X0 || x == X1 || y == Y0 || y == Y1); };
            if (onB(ax, ay) && onB(bx, by)) epOnRoutingBorder = true;
            for (auto &v : R.v) { double cr = (bx - ax) * (v.y - ay) - (v.x - ax) * (by - ay), dt = (v.x - ax) * (bx - ax) + (v.y - ay) * (by - ay); if (cr == 0 && dt >= 0 && dt <= L) epOnRoutingBorder = true; } } }
        double ex0 = ck.a0 >= 0 ? (w.shapes[ck.a0].x0 + w.shapes[ck.a0].x1) * S / 2.0 : ck.x0 * S, ey0 = ck.a0 >= 0 ? (w.shapes[ck.a0].y0 + w.shapes[ck.a0].y1) * S / 2.0 : ck.y0 * S;
        if (di.size() < 2 || di.ps[0].x != ex0 || di.ps[0].y != ey0 || di.ps[di.size() - 1].x != w.conns[k].x1 * S || di.ps[di.size() - 1].y != w.conns[k].y1 * S) ctx.violation("endpoints_wrong", {}, desc, obs);
        for (size_t q = 1; q < di.size(); q++) for (auto &s : w.shapes) if (s.alive) {
            if (ck.a0 >= 0 && &s == &w.shapes[ck.a0]) continue;   // the shape the connector is attached to contains its end
            if (encl[k] >> (&s - &w.shapes[0]) & 1) continue;   // ... and so does a shape that strictly contains a free end
            Poly p = rect(s.x0 * S, s.y0 * S, s.x1 * S, s.y1 * S);
            if (hitsInteriorD(p, di.ps[q - 1].x, di.ps[q - 1].y, di.ps[q].x, di.ps[q].y, 1e-6)) {
                invalid = true;
                { // class through_vertex: the offending segment crosses the boundary of the shape it cuts exactly at a vertex:
                  //  (a) a vertex of ANY shape of the scene lies strictly inside the segment and on the cut shape's boundary, or
                  //  (b) an endpoint of the segment coincides with a vertex of the cut shape (coincident corners of touching shapes, diagonals).
                  // A segment whose two ends merely lie in the interior of sides of the cut shape is NOT in the class.
                  double ax = di.ps[q - 1].x, ay = di.ps[q - 1].y, bx = di.ps[q].x, by = di.ps[q].y, L = (bx - ax) * (bx - ax) + (by - ay) * (by - ay);
                  for (auto &v : p.v) { double cr = (bx - ax) * (v.y - ay) - (v.x - ax) * (by - ay), dt = (v.x - ax) * (bx - ax) + (v.y - ay) * (by - ay); if (cr == 0 && (dt == 0 || dt == L)) throughVertex = true; }
                  for (auto &o : w.shapes) if (o.alive) { Poly po = rect(o.x0 * S, o.y0 * S, o.x1 * S, o.y1 * S); for (auto &v : po.v) { double cr = (bx - ax) * (v.y - ay) - (v.x - ax) * (by - ay), dt = (v.x - ax) * (bx - ax) + (v.y - ay) * (by - ay);
                      bool onCutBoundary = v.x >= s.x0 * S && v.x <= s.x1 * S && v.y >= s.y0 * S && v.y <= s.y1 * S && (v.x == s.x0 * S || v.x == s.x1 * S || v.y == s.y0 * S || v.y == s.y1 * S);
                      if (cr == 0 && dt > 0 && dt < L && onCutBoundary) throughVertex = true;
                      //  (c) a vertex of a shape that the history added or moved lies strictly inside the segment (the segment runs along / through
                      //      corners of the edited shape; its visibility was re-tested by the incremental code path)
                      if (cr == 0 && dt > 0 && dt < L && o.touched) throughVertex = true; } }
                  // class chord_from_newer_vertex (same definition as in the C03 harness): an end of the segment lies on the cut shape's boundary and is a
                  // vertex of a shape created after the cut shape (later in creation order, or added/moved by the history)
                  auto onBd = [&](double x, double y) { return x >= s.x0 * S && x <= s.x1 * S && y >= s.y0 * S && y <= s.y1 * S && (x == s.x0 * S || x == s.x1 * S || y == s.y0 * S || y == s.y1 * S); };
                  bool aOn = onBd(ax, ay), bOn = onBd(bx, by);
                  for (auto &o : w.shapes) if (o.alive && &o != &s && (o.touched || &o > &s)) { Poly po = rect(o.x0 * S, o.y0 * S, o.x1 * S, o.y1 * S); for (auto &v : po.v) if ((aOn && v.x == ax && v.y == ay) || (bOn && v.x == bx && v.y == by)) chordNewer = true; } }
            }
        }
        // is the fresh route itself valid?  (if not, a free path may not exist and nothing is demanded)
        bool freshInvalid = false; for (size_t q = 1; q < fc[k]->displayRoute().size(); q++) for (auto &s : w.shapes) if (s.alive && !(ck.a0 >= 0 && &s == &w.shapes[ck.a0]) && !(encl[k] >> (&s - &w.shapes[0]) & 1)) { Poly p = rect(s.x0 * S, s.y0 * S, s.x1 * S, s.y1 * S); const Avoid::PolyLine &fr = fc[k]->displayRoute(); if (hitsInteriorD(p, fr.ps[q - 1].x, fr.ps[q - 1].y, fr.ps[q].x, fr.ps[q].y, 1e-6)) freshInvalid = true; }
        // Whether a free path exists is decided by the exact visibility graph (polyline); the fresh router's own
        // validity is only a proxy and is used for orthogonal mode.  (A fresh router can be wrong too: shapes are
        // added one after the other inside its single transaction.)
        bool pathExists = !freshInvalid;
        if (encl[k]) ctx.count("judged_with_an_end_strictly_inside_a_shape");
        if (!ortho && ck.a0 < 0 && !encl[k]) { vector<Poly> sc; for (auto &sh : w.shapes) if (sh.alive) sc.push_back(rect(sh.x0, sh.y0, sh.x1, sh.y1)); VisGraph vg(sc, P{w.conns[k].x0, w.conns[k].y0}, P{w.conns[k].x1, w.conns[k].y1}); pathExists = vg.reachable(); if (freshInvalid && pathExists) ctx.count("fresh_route_invalid_although_path_exists"); }
        if (!pathExists) { ctx.count("no_free_path"); continue; }
        if (freshInvalid && !invalid) { ctx.count("fresh_invalid_incremental_valid"); continue; }
        if (invalid) { vector<string> kc; if (throughVertex && !ortho) kc.push_back("through_vertex"); if (chordNewer && !ortho) kc.push_back("chord_from_newer_vertex"); if (epOnRoutingBorder) kc.push_back("routing_polygon_chord_or_vertex"); ctx.violation("route_invalid_after_history", kc, desc, obs); continue; }
        // (ii) cost no more than from scratch
        double ci = cost(ri, ortho), cf = cost(rf, ortho);
        // class of KF-C06-4: an end of the connector lies strictly inside a shape that ANOTHER live shape of the judged scene overlaps.  The corners of the overlapping shape that lie
        // inside the enclosing one are usable for that connector in some construction sequences and not in others, so even two FRESH routers (scene built with / without a
        // further, unrelated shape) disagree about the route -- "no dearer than from scratch" has no stable reference there.
        bool enclOverlapped = false; for (size_t si = 0; si < w.shapes.size(); si++) if ((encl[k] >> si & 1) && w.shapes[si].alive) for (size_t sj = 0; sj < w.shapes.size(); sj++) if (sj != si && w.shapes[sj].alive && overlapR(w.shapes[si], w.shapes[sj])) enclOverlapped = true;
        if (ci > cf + 1e-6) ctx.violation("costlier_than_fresh", epOnRoutingBorder ? vector<string>{"routing_polygon_chord_or_vertex"} : enclOverlapped ? vector<string>{"end_inside_a_shape_that_another_shape_overlaps"} : vector<string>{}, desc, mcx::fmt("incremental cost %.9g fresh %.9g; ", ci, cf) + obs);
        if (fabs(ci - cf) > 1e-6) ctx.count("differs_from_fresh");
        // (ii') polyline, no buffer: the exact Euclidean shortest path over the visibility graph of the final scene (the C04 oracle) -- independent of the fresh router
        if (!ortho && !g_buf && ck.a0 < 0 && !encl[k]) { vector<Poly> sc; for (auto &sh : w.shapes) if (sh.alive) sc.push_back(rect(sh.x0, sh.y0, sh.x1, sh.y1)); VisGraph vg(sc, P{ck.x0, ck.y0}, P{ck.x1, ck.y1}); double ex = vg.shortest(0, false) * S;
            ctx.count("exact_shortest_path_checks"); if (ex < 1e17 && ci > ex + 1e-6 && !(ci > cf + 1e-6)) ctx.violation("longer_than_shortest_path", {}, desc, mcx::fmt("incremental cost %.9g exact shortest %.9g fresh %.9g; ", ci, ex, cf) + obs); }
    }
    delete f;
    // (iii) a transaction that changes nothing leaves every route unchanged
    vector<string> before; for (auto c : lc) before.push_back(route_str(c->displayRoute()));
    live->processTransaction();
    for (size_t k = 0; k < lc.size(); k++) if (route_str(lc[k]->displayRoute()) != before[k]) ctx.violation("empty_transaction_changed_route", {}, desc, before[k] + " -> " + route_str(lc[k]->displayRoute()));
}

static void run_history(const World &w0, const vector<Op> &ops, bool ortho, bool transactions, int batch) {
    World w = w0; Avoid::Router *r = mk(ortho, transactions);
    vector<Avoid::ShapeRef *> sh; for (auto &s : w.shapes) sh.push_back(s.alive ? mk_shape(r, s) : nullptr);
    vector<Avoid::ConnRef *> lc; for (auto &c : w.conns) lc.push_back(new Avoid::ConnRef(r, src_end(c, sh), Avoid::ConnEnd(Avoid::Point(c.x1 * S, c.y1 * S))));
    r->processTransaction();
    string desc = mcx::fmt("%s transactions=%d batch=%d start ", ortho ? "orthogonal" : "polyline", transactions, batch) + world_str(w0) + " ops:";
    bool interesting = false; int pending = 0;
    for (size_t k = 0; k < ops.size(); k++) {
        const Op &o = ops[k]; desc += " " + op_str(o); ctx.count("transitions");
        if (o.kind == 0) { r->moveShape(sh[o.a], o.dx * S, o.dy * S); Rc &c = w.shapes[o.a]; c.x0 += o.dx; c.x1 += o.dx; c.y0 += o.dy; c.y1 += o.dy; c.touched = true; }
        else if (o.kind == 1) { r->deleteShape(sh[o.a]); w.shapes[o.a].alive = false; sh[o.a] = nullptr; }
        else if (o.kind == 5) { Rc &c = w.shapes[o.a]; c.x1 += o.dx; c.y1 += o.dy; c.touched = true; Avoid::Rectangle pg(Avoid::Point(c.x0 * S, c.y0 * S), Avoid::Point(c.x1 * S, c.y1 * S)); r->moveShape(sh[o.a], pg); }
        else if (o.kind == 2) { Rc c = RL[o.a]; c.alive = true; c.touched = true; w.shapes.push_back(c); sh.push_back(mk_shape(r, c)); }
        else if (o.kind == 7) { Rc c = g_custom; c.alive = true; c.touched = true; w.shapes.push_back(c); sh.push_back(mk_shape(r, c)); }
        else if (o.kind == 3) { Avoid::ConnEnd e(Avoid::Point(PTS[o.dy][0] * S, PTS[o.dy][1] * S)); if (o.dx) { lc[o.a]->setDestEndpoint(e); w.conns[o.a].x1 = PTS[o.dy][0]; w.conns[o.a].y1 = PTS[o.dy][1]; } else { lc[o.a]->setSourceEndpoint(e); w.conns[o.a].x0 = PTS[o.dy][0]; w.conns[o.a].y0 = PTS[o.dy][1]; w.conns[o.a].a0 = -1; } }
        else if (o.kind == 6) { lc[o.a]->setSourceEndpoint(Avoid::ConnEnd(sh[o.dx], 1)); w.conns[o.a].a0 = o.dx; }
        pending++;
        if (pending == batch || k + 1 == ops.size()) { if (transactions) r->processTransaction(); pending = 0; judge(w, r, lc, ortho, desc); }
    }
    for (auto &s : w.shapes) if (s.touched || !s.alive) interesting = true;
    if (interesting) ctx.count("nontrivial");
    delete r;
}
// legal next operations in world w (documented preconditions: shape alive; no add+delete of one shape in one transaction)
static vector<Op> legal_ops(const World &w, const vector<Op> &pendingInTx) {
    vector<Op> v;
    for (size_t s = 0; s < w.shapes.size(); s++) if (w.shapes[s].alive) {
        bool addedInTx = false, movedInTx = false; size_t nAdds = 0; for (auto &p : pendingInTx) { if (p.kind == 2) nAdds++; if (p.kind == 0 && p.a == (int)s) movedInTx = true; } if (s + nAdds >= w.shapes.size()) addedInTx = true;   // the shapes added in the pending transaction are the last nAdds of the list (a first version only knew the last one: with two additions pending it deleted the first of them -- an illegal history, caught by the library's own assertion)
        for (int dx = -1; dx <= 1; dx++) for (int dy = -1; dy <= 1; dy++) if ((dx == 0) != (dy == 0)) v.push_back({0, (int)s, dx, dy});
        bool attached = false; for (auto &c : w.conns) if (c.a0 == (int)s) attached = true;
        if (!addedInTx && !attached) v.push_back({1, (int)s, 0, 0});   // (a shape with a connector attached to it is not deleted: what becomes of the connector end is not specified)
        if (g_pins) for (size_t c = 0; c < w.conns.size(); c++) if (w.conns[c].a0 != (int)s) v.push_back({6, (int)c, (int)s, 0});
        (void)movedInTx;
        v.push_back({5, (int)s, 1, 0}); v.push_back({5, (int)s, 0, 1});
        if (w.shapes[s].x1 - w.shapes[s].x0 > 1) v.push_back({5, (int)s, -1, 0}); if (w.shapes[s].y1 - w.shapes[s].y0 > 1) v.push_back({5, (int)s, 0, -1});
    }
    if (w.shapes.size() < 4) for (int k : {4, 5}) v.push_back({2, k, 0, 0});
    for (size_t c = 0; c < w.conns.size(); c++) for (int e = 0; e < 2; e++) for (int p = 0; p < (int)PTS.size(); p++) v.push_back({3, (int)c, e, p});
    return v;
}
static World apply_model(World w, const Op &o) {
    if (o.kind == 5) { Rc &c = w.shapes[o.a]; c.x1 += o.dx; c.y1 += o.dy; }
    else if (o.kind == 0) { Rc &c = w.shapes[o.a]; c.x0 += o.dx; c.x1 += o.dx; c.y0 += o.dy; c.y1 += o.dy; } else if (o.kind == 1) w.shapes[o.a].alive = false; else if (o.kind == 2) { Rc c = RL[o.a]; c.alive = true; w.shapes.push_back(c); }
    else if (o.kind == 3) { if (o.dx) { w.conns[o.a].x1 = PTS[o.dy][0]; w.conns[o.a].y1 = PTS[o.dy][1]; } else { w.conns[o.a].x0 = PTS[o.dy][0]; w.conns[o.a].y0 = PTS[o.dy][1]; w.conns[o.a].a0 = -1; } }
    else if (o.kind == 6) w.conns[o.a].a0 = o.dx;
    return w;
}
static void dfs(const World &w0, const World &w, vector<Op> &ops, int depth, bool ortho, bool transactions, int batch) {
    if ((int)ops.size() == depth) { if (!ctx.next()) return; string hs = world_str(w0) + " ops: " + [&] { string s; for (auto &o : ops) s += op_str(o) + " "; return s; }(); ctx.sample(hs); ctx.announce(hs);
        try { run_history(w0, ops, ortho, transactions, batch); } catch (vpsc::CriticalFailure &f) { ctx.library_abort(f.what(), mcx::fmt("%s transactions=%d batch=%d ", ortho ? "orthogonal" : "polyline", transactions, batch) + hs); }
        ctx.done_case(); return; }
    vector<Op> pend; if (batch > 1) for (size_t k = (ops.size() / batch) * batch; k < ops.size(); k++) pend.push_back(ops[k]);
    for (auto &o : legal_ops(w, pend)) { if (ctx.stopped()) return; ops.push_back(o); dfs(w0, apply_model(w, o), ops, depth, ortho, transactions, batch); ops.pop_back(); }
}
static void phase(int nshapes, int nconns, int depth, bool ortho, bool transactions, int batch, int epStep, bool attached = false) {
    g_pins = attached;
    ctx.phase(mcx::fmt("%s %d shapes %d connector(s) depth %d transactions=%d ops-per-transaction=%d%s%s", ortho ? "orthogonal" : "polyline", nshapes, nconns, depth, transactions, batch, g_buf ? mcx::fmt(" shapeBufferDistance=%g cells", g_buf / 2.0).c_str() : "", attached ? "; every shape has a centre pin, the first connector starts attached to shape 0, re-attaching to a pin is an operation" : ""));
    vector<int> idx(nshapes); for (int i = 0; i < nshapes; i++) idx[i] = i;
    do {
        World w0; bool ok = true; for (int i : idx) { Rc c = RL[i]; c.alive = true; c.touched = false; w0.shapes.push_back(c); }
        for (size_t i = 0; i < w0.shapes.size(); i++) for (size_t j = i + 1; j < w0.shapes.size(); j++) if (overlapR(w0.shapes[i], w0.shapes[j])) ok = false;
        if (!ok) continue;
        for (size_t e = 0; e < EPS.size(); e += epStep) { World w = w0; w.conns.push_back(EPS[e]); if (attached) w.conns[0].a0 = 0; if (nconns == 2) w.conns.push_back(EPS[(e + 2) % EPS.size()]); vector<Op> ops; dfs(w, w, ops, depth, ortho, transactions, batch); if (ctx.stopped()) return; }
    } while (mcx::subset_next(idx, RL.size()));
}
// systematic depth-1 phase: EVERY pair of interior-disjoint grid rectangles, one connector, then one edit chosen from
// {add any grid rectangle, move either shape one cell, delete either shape}
static void grid_phase(int G, bool ortho, int epSel) {
    // epSel >= 100: all connectors from the column left of the grid to the column right of it (rows 0..G), in ONE router
    vector<Ep> ring; if (epSel >= 100) for (int y0 = 0; y0 <= G; y0++) for (int y1 = 0; y1 <= G; y1++) ring.push_back({-1, y0, G + 1, y1});
    if (epSel >= 101) for (int x0 = 0; x0 <= G; x0++) for (int x1 = 0; x1 <= G; x1++) ring.push_back({x0, -1, x1, G + 1});
    vector<Rc> all; for (int x0 = 0; x0 < G; x0++) for (int x1 = x0 + 1; x1 <= G; x1++) for (int y0 = 0; y0 < G; y0++) for (int y1 = y0 + 1; y1 <= G; y1++) all.push_back({x0, y0, x1, y1, true, false});
    vector<Ep> eps = {{-1, -1, G + 1, G + 1}, {-1, G + 1, G + 1, -1}, {-1, G / 2, G + 1, G / 2}, {G / 2, -1, G / 2, G + 1}, {0, 0, G, G}, {0, 1, G, G - 1}};
    ctx.phase(mcx::fmt("%s: every pair of interior-disjoint rectangles on grid %d, connector set #%d (<100 one connector, 100/101 ring, 200 every free grid-point pair with move/delete edits, 201 with all edits), then every single edit (add any rectangle / move / delete)", ortho ? "orthogonal" : "polyline", G, epSel));
    for (size_t a = 0; a < all.size(); a++) for (size_t b = a + 1; b < all.size(); b++) {
        if (overlapR(all[a], all[b])) continue; if (ctx.stopped()) return;
        if (!ctx.next()) continue;
        World w0; w0.shapes = {all[a], all[b]}; if (epSel >= 200) { vector<array<int, 2>> fr; for (int x = 0; x <= G; x++) for (int y = 0; y <= G; y++) { bool in = false; for (auto &sh : w0.shapes) if (x >= sh.x0 && x <= sh.x1 && y >= sh.y0 && y <= sh.y1) in = true; if (!in) fr.push_back({x, y}); }
            for (size_t i = 0; i < fr.size(); i++) for (size_t j = i + 1; j < fr.size(); j++) w0.conns.push_back({fr[i][0], fr[i][1], fr[j][0], fr[j][1]}); if (w0.conns.empty()) continue; }
        else if (epSel >= 100) w0.conns = ring; else w0.conns = {eps[epSel]};
        ctx.sample(world_str(w0) + " then every single edit", 1);
        // edits: the add-list of run_history is RL-indexed, so drive the router directly here
        for (int kind = (epSel == 200 ? 1 : 0); kind < 3; kind++) for (size_t n = 0; n < (kind == 0 ? all.size() : kind == 1 ? 8u : 2u); n++) {
            World w = w0; Avoid::Router *r = mk(ortho, true); vector<Avoid::ShapeRef *> sh; for (auto &s : w.shapes) sh.push_back(mk_shape(r, s));
            vector<Avoid::ConnRef *> lc; for (auto &c : w.conns) lc.push_back(new Avoid::ConnRef(r, Avoid::ConnEnd(Avoid::Point(c.x0 * S, c.y0 * S)), Avoid::ConnEnd(Avoid::Point(c.x1 * S, c.y1 * S))));
            string desc = mcx::fmt("%s start ", ortho ? "orthogonal" : "polyline") + world_str(w0) + " edit: ";
            try {
                r->processTransaction();
                if (kind == 0) { Rc c = all[n]; c.touched = true; w.shapes.push_back(c); sh.push_back(mk_shape(r, c)); desc += mcx::fmt("add [%d,%d..%d,%d]", c.x0, c.y0, c.x1, c.y1); }
                else if (kind == 1) { int si = n / 4, d = n % 4, dx = d == 0 ? 1 : d == 1 ? -1 : 0, dy = d == 2 ? 1 : d == 3 ? -1 : 0; r->moveShape(sh[si], dx * S, dy * S); Rc &c = w.shapes[si]; c.x0 += dx; c.x1 += dx; c.y0 += dy; c.y1 += dy; c.touched = true; desc += mcx::fmt("move(shape%d,%+d,%+d)", si, dx, dy); }
                else { r->deleteShape(sh[n]); w.shapes[n].alive = false; desc += mcx::fmt("delete(shape%zu)", n); }
                ctx.count("transitions"); r->processTransaction(); ctx.count("nontrivial_edits");
                judge(w, r, lc, ortho, desc);
                delete r;
            } catch (vpsc::CriticalFailure &f) { ctx.library_abort(f.what(), desc); }
        }
        ctx.count("nontrivial"); ctx.done_case();
    }
}
// "bar and block" family on a larger grid: a wide horizontal or vertical bar A and a long block B perpendicular to it; every free
// grid-point pair as connector (one router); then B is deleted or moved one cell.  (Routes that are held away from B by A, so
// that B's removal opens a shorter way without any route vertex on B.)
static void bar_block_phase(int G, int step) {
    ctx.phase(mcx::fmt("polyline bar+block family on grid %d: every free grid-point pair (every %d-th), then delete / move the block, or move the bar and delete the block in one transaction", G, step));
    for (int orient = 0; orient < 2; orient++) for (int a0 = 0; a0 < G; a0++) for (int a1 = a0 + 2; a1 <= G; a1++) for (int ay = 0; ay < G; ay++)
    for (int b0 = 0; b0 < G; b0++) for (int b1 = b0 + 2; b1 <= G; b1++) for (int bx = 0; bx < G; bx++) for (int bw = 1; bw <= 2 && bx + bw <= G; bw++) {
        Rc A = orient ? Rc{ay, a0, ay + 1, a1, true, false} : Rc{a0, ay, a1, ay + 1, true, false};
        Rc B = orient ? Rc{b0, bx, b1, bx + bw, true, false} : Rc{bx, b0, bx + bw, b1, true, false};
        if (overlapR(A, B)) continue; if (ctx.stopped()) return; if (!ctx.next()) continue;
        World w0; w0.shapes = {A, B}; vector<array<int, 2>> fr; for (int x = 0; x <= G; x++) for (int y = 0; y <= G; y++) { bool in = false; for (auto &sh : w0.shapes) if (x >= sh.x0 && x <= sh.x1 && y >= sh.y0 && y <= sh.y1) in = true; if (!in) fr.push_back({x, y}); }
        size_t c = 0; for (size_t i = 0; i < fr.size(); i++) for (size_t j = i + 1; j < fr.size(); j++) if ((c++ % step) == 0) w0.conns.push_back({fr[i][0], fr[i][1], fr[j][0], fr[j][1]});
        ctx.sample(world_str(w0).substr(0, 60) + " ...", 1); ctx.count("nontrivial");
        for (int n = 0; n < 7; n++) {   // 5, 6: TWO obstacles edited in one transaction (the bar re-registered in place / moved one cell, and the block deleted)
            World w = w0; Avoid::Router *r = mk(false, true); vector<Avoid::ShapeRef *> sh; for (auto &s2 : w.shapes) sh.push_back(mk_shape(r, s2));
            vector<Avoid::ConnRef *> lc; for (auto &cn : w.conns) lc.push_back(new Avoid::ConnRef(r, Avoid::ConnEnd(Avoid::Point(cn.x0 * S, cn.y0 * S)), Avoid::ConnEnd(Avoid::Point(cn.x1 * S, cn.y1 * S))));
            string desc = mcx::fmt("polyline start shapes: [%d,%d..%d,%d] [%d,%d..%d,%d] (%zu connectors) edit: ", A.x0, A.y0, A.x1, A.y1, B.x0, B.y0, B.x1, B.y1, w.conns.size());
            try { r->processTransaction();
                if (n == 0) { r->deleteShape(sh[1]); w.shapes[1].alive = false; desc += "delete(block)"; }
                else if (n >= 5) { int dx = (n == 6 && orient) ? -1 : 0, dy = (n == 6 && !orient) ? -1 : 0; Rc &ca = w.shapes[0]; if (ca.x0 + dx < 0 || ca.y0 + dy < 0) { delete r; continue; }
                    r->moveShape(sh[0], dx * S, dy * S); ca.x0 += dx; ca.x1 += dx; ca.y0 += dy; ca.y1 += dy; ca.touched = true; r->deleteShape(sh[1]); w.shapes[1].alive = false; desc += mcx::fmt("move(bar,%+d,%+d) delete(block) in one transaction", dx, dy); }
                else { int dx = n == 1 ? 1 : n == 2 ? -1 : 0, dy = n == 3 ? 1 : n == 4 ? -1 : 0; r->moveShape(sh[1], dx * S, dy * S); Rc &cc = w.shapes[1]; cc.x0 += dx; cc.x1 += dx; cc.y0 += dy; cc.y1 += dy; cc.touched = true; desc += mcx::fmt("move(block,%+d,%+d)", dx, dy); }
                ctx.count("transitions"); r->processTransaction(); judge(w, r, lc, false, desc); delete r;
            } catch (vpsc::CriticalFailure &f) { ctx.library_abort(f.what(), desc); }
        }
        // a third shape -- a 1x1 pebble created BEFORE the block, at every free cell -- and pebble and block deleted in ONE transaction: the re-route scan
        // runs once per removed obstacle over all connectors, and a connector may need the block's region although only the pebble's scan marked anything
        if (step >= 3) for (int px = 0; px < G; px++) for (int py = 0; py < G; py++) { Rc Pb{px, py, px + 1, py + 1, true, false}; if (overlapR(Pb, A) || overlapR(Pb, B)) continue;
            World w; w.shapes = {A, Pb, B}; for (auto &cn : w0.conns) { bool in = false; for (int q = 0; q < 2; q++) { int x = q ? cn.x1 : cn.x0, y = q ? cn.y1 : cn.y0; if (x >= Pb.x0 && x <= Pb.x1 && y >= Pb.y0 && y <= Pb.y1) in = true; } if (!in) w.conns.push_back(cn); }
            Avoid::Router *r = mk(false, true); vector<Avoid::ShapeRef *> sh; for (auto &s2 : w.shapes) sh.push_back(mk_shape(r, s2));
            vector<Avoid::ConnRef *> lc; for (auto &cn : w.conns) lc.push_back(new Avoid::ConnRef(r, Avoid::ConnEnd(Avoid::Point(cn.x0 * S, cn.y0 * S)), Avoid::ConnEnd(Avoid::Point(cn.x1 * S, cn.y1 * S))));
            string desc = mcx::fmt("polyline start shapes: [%d,%d..%d,%d] pebble [%d,%d..%d,%d] [%d,%d..%d,%d] (%zu connectors) edit: delete(pebble) delete(block) in one transaction", A.x0, A.y0, A.x1, A.y1, Pb.x0, Pb.y0, Pb.x1, Pb.y1, B.x0, B.y0, B.x1, B.y1, w.conns.size());
            try { r->processTransaction(); r->deleteShape(sh[1]); w.shapes[1].alive = false; r->deleteShape(sh[2]); w.shapes[2].alive = false; ctx.count("transitions"); r->processTransaction(); judge(w, r, lc, false, desc); delete r; }
            catch (vpsc::CriticalFailure &f) { ctx.library_abort(f.what(), desc); } }
        ctx.done_case();
    }
}

// Connector ends that start INSIDE a shape: the router records which shapes contain each endpoint (Router::contains) and ignores them as
// blockers for that endpoint.  Every 2x2 shape S on the grid with the connector's source at its centre, every small second shape T, every
// target on the grid ring; then S is moved off the source, and in a LATER transaction T is deleted or moved.  Judged after each transaction
// (a connector with an end inside a shape of the current scene is not judged).
static void inside_phase(int G, bool transactions) {
    ctx.phase(mcx::fmt("polyline, source inside a 2x2 shape S near the origin (grid %d): move S 2 or 3 cells in +x/+y off the source, then delete/move the second shape T (every 1xk/kx1 rectangle that meets the source's row or column), every target on the grid ring, transactions=%d", G, transactions));
    vector<array<int, 2>> ring; for (int x = 0; x <= G; x++) for (int y = 0; y <= G; y++) if (x == 0 || y == 0 || x == G || y == G) ring.push_back({x, y});
    static const int MV[4][2] = {{2, 0}, {3, 0}, {0, 2}, {0, 3}};
    for (int sx = 0; sx <= 1; sx++) for (int sy = 0; sy <= 1; sy++) {
        Rc Sh{sx, sy, sx + 2, sy + 2}; Sh.alive = true; Sh.touched = false; int px = sx + 1, py = sy + 1;
        vector<Rc> Ts; for (int w = 1; w <= 3; w++) for (int h = 1; h <= 3; h++) if ((w == 1) != (h == 1)) for (int x = 0; x + w <= G; x++) for (int y = 0; y + h <= G; y++) { Rc t{x, y, x + w, y + h}; t.alive = true; t.touched = false;
            bool meets = (t.y0 <= py && py <= t.y1) || (t.x0 <= px && px <= t.x1); if (meets && !overlapR(Sh, t)) Ts.push_back(t); }
        for (auto &Tt : Ts) for (auto &tg : ring) {
            if (tg[0] >= Tt.x0 && tg[0] <= Tt.x1 && tg[1] >= Tt.y0 && tg[1] <= Tt.y1) continue;
            for (auto &m : MV) { Rc S2 = Sh; S2.x0 += m[0]; S2.x1 += m[0]; S2.y0 += m[1]; S2.y1 += m[1]; if (overlapR(S2, Tt)) continue; if (tg[0] >= S2.x0 && tg[0] <= S2.x1 && tg[1] >= S2.y0 && tg[1] <= S2.y1) continue;
                for (int o2 = 0; o2 < 5; o2++) {
                    if (ctx.stopped()) return; if (!ctx.next()) continue;
                    World w0; w0.shapes = {Sh, Tt}; w0.conns.push_back(Ep{px, py, tg[0], tg[1]});
                    vector<Op> ops; ops.push_back({0, 0, m[0], m[1]});
                    if (o2 == 0) ops.push_back({1, 1, 0, 0}); else ops.push_back({0, 1, o2 == 1 ? 1 : o2 == 2 ? -1 : 0, o2 == 3 ? 1 : o2 == 4 ? -1 : 0});
                    string hs = world_str(w0) + " ops: " + op_str(ops[0]) + " " + op_str(ops[1]); ctx.sample(hs, 1); ctx.announce(hs);
                    try { run_history(w0, ops, false, transactions, 1); } catch (vpsc::CriticalFailure &f) { ctx.library_abort(f.what(), hs); }
                    ctx.done_case();
                } }
        }
    }
}

// An endpoint strictly inside a shape S, a bar B that OVERLAPS S and lies between S's boundary and the endpoint (not containing it), then a third shape C added in a
// later transaction (the sweep for C's corners looks at the endpoint through S and then B, and records what blocks the view), then B deleted or moved: the
// blocked-edge records made in the second transaction must name B, or its removal re-tests nothing.  S = [2,8]^2 with the source at its centre; B every bar of
// 16 (rows/columns next to the centre, poking in from either side, across, or inside S); C every free cell; eight targets on a ring.
static void inside_overlap_phase(bool transactions, int cstep) {
    ctx.phase(mcx::fmt("polyline, source at the centre of a 6x6 shape S, a bar B overlapping S next to the source, a cell C added later (every %d-th), then B deleted / moved; 8 targets; transactions=%d", cstep, transactions));
    Rc Sh{2, 2, 8, 8, true, false}; const int ex = 5, ey = 5; vector<Rc> Bs;
    for (int orient = 0; orient < 2; orient++) for (int row : {3, 6}) for (auto &xt : vector<array<int, 2>>{{0, 6}, {4, 10}, {0, 10}, {3, 7}}) Bs.push_back(orient ? Rc{row, xt[0], row + 1, xt[1], true, false} : Rc{xt[0], row, xt[1], row + 1, true, false});
    static const int RING[8][2] = {{5, -2}, {5, 12}, {-2, 5}, {12, 5}, {-2, -2}, {12, 12}, {-2, 12}, {12, -2}};
    size_t cnt = 0;
    for (auto &B : Bs) for (int cx = 0; cx < 10; cx++) for (int cy = 0; cy < 10; cy++) { Rc C{cx, cy, cx + 1, cy + 1, true, false}; if (overlapR(C, Sh) || overlapR(C, B)) continue; if ((cnt++ % cstep) != 0) continue;
        for (auto &tg : RING) for (int o2 = 0; o2 < 5; o2++) {
            if (ctx.stopped()) return; if (!ctx.next()) continue;
            World w0; w0.shapes = {Sh, B}; w0.conns.push_back(Ep{ex, ey, tg[0], tg[1]}); g_custom = C;
            vector<Op> ops; ops.push_back({7, 0, 0, 0});
            if (o2 == 0) ops.push_back({1, 1, 0, 0}); else ops.push_back({0, 1, o2 == 1 ? 1 : o2 == 2 ? -1 : 0, o2 == 3 ? 1 : o2 == 4 ? -1 : 0});
            string hs = world_str(w0) + " ops: " + op_str(ops[0]) + " " + op_str(ops[1]); ctx.sample(hs, 1); ctx.announce(hs);
            try { run_history(w0, ops, false, transactions, 1); } catch (vpsc::CriticalFailure &f) { ctx.library_abort(f.what(), hs); }
            ctx.done_case(); } }
}

// Connectors that start with NO route: the source sits in a hole closed by a pinwheel of four touching rectangles (no free path exists, which is not judged);
// every history of depth 1..depth over the legal edits then opens (or does not open) the enclosure, and from then on the connector is judged like any other.
static void enclosure_phase(int depth, bool transactions) {
    ctx.phase(mcx::fmt("polyline, source enclosed by %s (no route at first), every history of depth %d, transactions=%d, targets outside", g_allowOverlap ? "a frame of four OVERLAPPING bars" : "a pinwheel of four touching rectangles", depth, transactions));
    // (touching rectangles leave a zero-width seam that libavoid routes along, so the pinwheel does not really enclose; the frame of four OVERLAPPING bars does)
    World w0; if (!g_allowOverlap) for (Rc r : {Rc{1, 1, 4, 2, true, false}, Rc{4, 1, 5, 4, true, false}, Rc{2, 4, 5, 5, true, false}, Rc{1, 2, 2, 5, true, false}}) w0.shapes.push_back(r);
    else for (Rc r : {Rc{1, 1, 5, 2, true, false}, Rc{4, 1, 5, 5, true, false}, Rc{1, 4, 5, 5, true, false}, Rc{1, 1, 2, 5, true, false}}) w0.shapes.push_back(r);
    for (auto &tg : vector<array<int, 2>>{{6, 0}, {0, 3}, {3, 6}, {6, 6}}) { World w = w0; Ep e; e.x0 = 3; e.y0 = 3; e.x1 = tg[0]; e.y1 = tg[1]; w.conns.push_back(e); vector<Op> ops; dfs(w, w, ops, depth, false, transactions, 1); if (ctx.stopped()) return; }
}
int main(int argc, char **argv) {
    ctx.init(argc, argv);
    bool T = ctx.thorough();
    for (int ortho = 0; ortho < 2; ortho++) { phase(2, 1, 1, ortho, true, 1, 1); phase(2, 1, 2, ortho, true, 1, 1); phase(2, 1, 2, ortho, false, 1, 2); phase(2, 1, 2, ortho, true, 2, 2); phase(3, 2, 1, ortho, true, 1, 2); }
    phase(3, 2, 2, false, true, 2, 2);   // three shapes, two connectors, two edits in ONE transaction (the per-obstacle re-route scan sees several obstacles and several connectors)
    for (int ortho = 0; ortho < 2; ortho++) { phase(2, 1, 1, ortho, true, 1, 1, true); phase(2, 1, 2, ortho, true, 2, 1, true); phase(2, 1, 2, ortho, true, 1, 2, true); }
    g_pins = false;
    enclosure_phase(1, true); enclosure_phase(2, true); enclosure_phase(2, false);
    g_allowOverlap = true; enclosure_phase(1, true); enclosure_phase(2, true); enclosure_phase(2, false); inside_overlap_phase(true, T ? 1 : 3); if (T) inside_overlap_phase(false, 1); g_allowOverlap = false;
    for (int b : {2, 1}) { g_buf = b; phase(2, 1, 1, false, true, 1, 1); phase(2, 1, 2, false, true, 1, 1); if (T) phase(2, 1, 3, false, true, 1, 2); } g_buf = 0;
    grid_phase(3, false, 0); grid_phase(3, false, 1); grid_phase(3, false, 100); grid_phase(3, true, 0); grid_phase(3, false, 200); grid_phase(3, false, 201); bar_block_phase(5, 3); inside_phase(7, true);   // (201: ... and every rectangle ADDED, which is the only single edit that can strictly cover an existing free endpoint)
    if (T) { inside_phase(7, false); inside_phase(8, true); bar_block_phase(5, 1); bar_block_phase(6, 2); grid_phase(4, false, 200); grid_phase(3, false, 101); grid_phase(3, true, 100); for (int e = 0; e < 6; e++) { grid_phase(4, false, e); grid_phase(3, true, e); } grid_phase(4, true, 0); grid_phase(4, true, 2); }
    if (T) enclosure_phase(3, true);
    if (T) for (int ortho = 0; ortho < 2; ortho++) { phase(2, 1, 2, ortho, false, 1, 1, true); phase(2, 1, 3, ortho, true, 3, 2, true); phase(3, 2, 2, ortho, true, 2, 2, true); }
    g_pins = false;
    if (T) for (int ortho = 0; ortho < 2; ortho++) { phase(2, 1, 3, ortho, true, 1, 1); phase(2, 1, 3, ortho, false, 1, 2); phase(2, 1, 4, ortho, true, 2, 5); phase(3, 2, 2, ortho, true, 1, 2); phase(3, 1, 3, ortho, true, 3, 5); }
    return ctx.finish();
}
