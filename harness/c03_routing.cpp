// C03 / C04 / C05: exhaustive small scenes through a freshly built Avoid::Router.
//   --prop C03 : routes join their endpoints and stay out of obstacles (both modes, buffer, nudging)
//   --prop C04 : polyline routes are Euclidean shortest paths (+ segmentPenalty * bends)
//   --prop C05 : orthogonal routes are axis-parallel and of minimum length + penalty*bends; bends() estimator
#include "libavoid/libavoid.h"
#include <cstdio>
#include <map>
#include <set>
#include <queue>
#include <array>
#include "mcx/mcx.h"
#include "mcx/arena.h"   // (only for the live-allocation count of the C15 leak probes; no heap schedule is started here)
#include "oracle/geom.h"
using namespace std;
using namespace geo;
namespace Avoid { int bends(const Point &curr, unsigned int currDir, const Point &dest, unsigned int destDir); }

static mcx::Ctx ctx;
static string PROP;
static const int S = 10;

static string poly_str(const Poly &p) { string s = "["; for (auto &v : p.v) s += mcx::fmt("(%lld,%lld)", v.x, v.y); return s + "]"; }
static string scene_str(const vector<Poly> &sh) { string s; for (auto &p : sh) s += poly_str(p) + " "; return s; }
static string route_str(const Avoid::PolyLine &r) { string s; for (size_t i = 0; i < r.size(); i++) s += mcx::fmt("(%g,%g)", r.ps[i].x / S, r.ps[i].y / S); return s; }

static vector<Poly> shape_alphabet(int G, bool tris) {
    vector<Poly> polys;
    for (int x0 = 0; x0 < G; x0++) for (int x1 = x0 + 1; x1 <= G; x1++) for (int y0 = 0; y0 < G; y0++) for (int y1 = y0 + 1; y1 <= G; y1++) {
        polys.push_back(rect(x0, y0, x1, y1));
        if (tris) {
            Poly t1; t1.v = {{x1, y0}, {x1, y1}, {x0, y0}}; Poly t2; t2.v = {{x1, y0}, {x1, y1}, {x0, y1}};
            Poly t3; t3.v = {{x1, y1}, {x0, y1}, {x0, y0}}; Poly t4; t4.v = {{x1, y0}, {x0, y1}, {x0, y0}};
            polys.push_back(t1); polys.push_back(t2); polys.push_back(t3); polys.push_back(t4);
        }
    }
    return polys;
}
static R toR(const Poly &p) { return R{(int)p.v[3].x, (int)p.v[0].y, (int)p.v[0].x, (int)p.v[1].y}; }
static bool sepRects(const R &a, const R &b, int gap) { return a.x1 + gap <= b.x0 || b.x1 + gap <= a.x0 || a.y1 + gap <= b.y0 || b.y1 + gap <= a.y0; }

// enumerate scenes of exactly k shapes (index-increasing) that are pairwise interior-disjoint (minSep=0) or
// at least minSep cells apart (rectangles only); calls f(scene)
template <class F> static void for_scenes(const vector<Poly> &alpha, int k, int minSepCells, bool rectsOnly, F f) {
    vector<int> idx(k); for (int i = 0; i < k; i++) idx[i] = i;
    if ((int)alpha.size() < k) return;
    do {
        if (ctx.stopped()) return;
        bool ok = true;
        for (int i = 0; i < k && ok; i++) for (int j = i + 1; j < k && ok; j++) {
            if (rectsOnly && minSepCells > 0) { if (!sepRects(toR(alpha[idx[i]]), toR(alpha[idx[j]]), minSepCells)) ok = false; }
            else if (interiorsOverlap(alpha[idx[i]], alpha[idx[j]])) ok = false;
        }
        if (!ok) continue;
        vector<Poly> sc; for (int i : idx) sc.push_back(alpha[i]);
        f(sc);
    } while (mcx::subset_next(idx, alpha.size()));
}
static vector<P> free_points(const vector<Poly> &sc, int G) {
    vector<P> fr;
    for (int x = 0; x <= G; x++) for (int y = 0; y <= G; y++) { P q{x, y}; bool in = false; for (auto &s : sc) if (inClosed(s, q)) in = true; if (!in) fr.push_back(q); }
    return fr;
}
static double g_anglePen = 0;   // anglePenalty (a polyline parameter: an orthogonal route must not depend on it)
static Avoid::Router *mk_router(bool ortho, double segPen, double buf, const vector<Poly> &sc) {
    Avoid::Router *r = new Avoid::Router(ortho ? Avoid::OrthogonalRouting : Avoid::PolyLineRouting);
    r->setRoutingParameter(Avoid::segmentPenalty, segPen);
    r->setRoutingParameter(Avoid::shapeBufferDistance, buf);
    if (g_anglePen > 0) r->setRoutingParameter(Avoid::anglePenalty, g_anglePen);
    if (getenv("VERIF_PROBE_NAIVE")) r->UseLeesAlgorithm = false;   // probe only (undocumented public flag)
    if (getenv("VERIF_PROBE_NOINVIS")) r->InvisibilityGrph = false;
    for (auto &sh : sc) { Avoid::Polygon pg(sh.v.size()); for (size_t k = 0; k < sh.v.size(); k++) pg.ps[k] = Avoid::Point(sh.v[k].x * S, sh.v[k].y * S); new Avoid::ShapeRef(r, pg); }
    return r;
}
static Avoid::ConnRef *mk_conn(Avoid::Router *r, P a, P b, unsigned da = Avoid::ConnDirAll, unsigned db = Avoid::ConnDirAll) {
    return new Avoid::ConnRef(r, Avoid::ConnEnd(Avoid::Point(a.x * S, a.y * S), da), Avoid::ConnEnd(Avoid::Point(b.x * S, b.y * S), db));
}
// is the straight segment blocked?
static bool straight_blocked(const vector<Poly> &sc, P a, P b) { for (auto &s : sc) if (hitsInterior(s, a, b)) return true; return false; }

// orthogonal free-path existence on the grid with margin; zero-width corridors between touching rectangles are closed
static bool ortho_path_exists(int G, const vector<Poly> &sc, P a, P b) {
    // double the resolution so that "touching" rectangles can be fattened: a step along a line shared by two rects is blocked
    vector<R> rs; for (auto &p : sc) rs.push_back(toR(p));
    // fatten: any two rects that touch along a side of positive length are merged across that line by adding a thin blocker;
    // done on a 2x grid: rect [x0,x1] -> [2x0,2x1]; touching line at 2x gets blocker [2x-1,2x+1] over the shared span
    vector<R> r2; for (auto &r : rs) r2.push_back({2 * r.x0, 2 * r.y0, 2 * r.x1, 2 * r.y1});
    size_t n = rs.size();
    for (size_t i = 0; i < n; i++) for (size_t j = 0; j < n; j++) if (i != j) {
        const R &A = rs[i], &B = rs[j];
        if (A.x1 == B.x0) { int lo = max(A.y0, B.y0), hi = min(A.y1, B.y1); if (lo < hi) r2.push_back({2 * A.x1 - 1, 2 * lo, 2 * A.x1 + 1, 2 * hi}); }
        if (A.y1 == B.y0) { int lo = max(A.x0, B.x0), hi = min(A.x1, B.x1); if (lo < hi) r2.push_back({2 * lo, 2 * A.y1 - 1, 2 * hi, 2 * A.y1 + 1}); }
    }
    OrthoGrid og(2 * G, r2);
    return og.best(2 * a.x, 2 * a.y, 2 * b.x, 2 * b.y, 0, 15, 15, 2) < 1e17;
}

// ---- C03 ------------------------------------------------------------------------------
// classes of an offending segment (ax,ay)-(bx,by) that cuts shape sh of the scene scS (library coordinates, creation order):
// through_vertex: the segment crosses the boundary of the shape it cuts exactly at a vertex -- a vertex of any shape strictly
//   inside the segment and on the cut shape's boundary, or a segment end that coincides with a vertex of the cut shape
//   (same definition as in the C06 harness)
// chord_from_newer_vertex: an end of the segment lies on the cut shape's boundary and is a vertex of a shape created AFTER the
//   cut shape (the edge was produced by the visibility sweep for the newer shape, whose centre sat on that boundary).
//   An edge between vertices of OLDER shapes that a newly added shape fails to block is NOT in the class.
static void cut_classes(const Poly &sh, const vector<Poly> &scS, double ax, double ay, double bx, double by, bool ortho, vector<string> &kc2) {
    bool tv = false; double L = (bx - ax) * (bx - ax) + (by - ay) * (by - ay);
    for (auto &v : sh.v) { double cr = (bx - ax) * (v.y - ay) - (v.x - ax) * (by - ay), dt = (v.x - ax) * (bx - ax) + (v.y - ay) * (by - ay); if (cr == 0 && (dt == 0 || dt == L)) tv = true; }
    for (auto &o : scS) for (auto &v : o.v) { double cr = (bx - ax) * (v.y - ay) - (v.x - ax) * (by - ay), dt = (v.x - ax) * (bx - ax) + (v.y - ay) * (by - ay); if (!(cr == 0 && dt > 0 && dt < L)) continue;
        bool onB = false; for (size_t e = 0; e < sh.v.size(); e++) { P u = sh.v[e], w2 = sh.v[(e + 1) % sh.v.size()]; if (cross(u, w2, v) == 0 && dot(u, w2, v) >= 0 && dot(w2, u, v) >= 0) onB = true; } if (onB) tv = true; }
    if (tv && !ortho) kc2.push_back("through_vertex");
    { size_t ci = &sh - &scS[0]; bool aOn = false, bOn = false, newer = false;
      for (size_t e = 0; e < sh.v.size(); e++) { P u = sh.v[e], w2 = sh.v[(e + 1) % sh.v.size()]; P pa{(ll)ax, (ll)ay}, pb{(ll)bx, (ll)by};
          if (cross(u, w2, pa) == 0 && dot(u, w2, pa) >= 0 && dot(w2, u, pa) >= 0) aOn = true; if (cross(u, w2, pb) == 0 && dot(u, w2, pb) >= 0 && dot(w2, u, pb) >= 0) bOn = true; }
      for (size_t j = ci + 1; j < scS.size(); j++) for (auto &v : scS[j].v) if ((aOn && v.x == ax && v.y == ay) || (bOn && v.x == bx && v.y == by)) newer = true;
      if (newer && !ortho) kc2.push_back("chord_from_newer_vertex"); }
}
static double g_bufNow = 0;   // shapeBufferDistance of the running phase (library units)
// is q inside or on the border of the routing polygon of sh = sh offset outwards by buf (every edge line moved out by buf, mitred corners)?
static bool inClosedBufferZone(const Poly &shS, double qx, double qy, double buf) { for (size_t e = 0; e < shS.v.size(); e++) { P u = shS.v[e], w = shS.v[(e + 1) % shS.v.size()]; double ex = w.x - u.x, ey = w.y - u.y, cr = ex * (qy - u.y) - (qx - u.x) * ey; if (cr / hypot(ex, ey) < -buf - 1e-9) return false; } return true; }
static void judge_valid(const vector<Poly> &sc, const vector<Poly> &scS, P a, P b, const Avoid::PolyLine &r, bool ortho, int G,
                        const string &what, const vector<string> &kc) {
    // scS = shapes in library coordinates (scaled by S)
    ctx.count("transitions"); ctx.count("evaluations");
    string desc = what + " scene " + scene_str(sc) + mcx::fmt(" conn (%lld,%lld)->(%lld,%lld)", a.x, a.y, b.x, b.y);
    bool blocked = straight_blocked(sc, a, b);
    if (blocked) ctx.count("nontrivial");
    bool pathExists;
    if (ortho) pathExists = ortho_path_exists(G, sc, a, b);
    else { VisGraph vg(sc, a, b); pathExists = vg.reachable(); }
    if (!pathExists) { ctx.count("no_free_path"); return; }
    if (r.size() < 2) { ctx.violation("route_too_short", kc, desc, route_str(r)); return; }
    if (r.ps[0].x != a.x * S || r.ps[0].y != a.y * S || r.ps[r.size() - 1].x != b.x * S || r.ps[r.size() - 1].y != b.y * S)
        ctx.violation("endpoints_moved", kc, desc, route_str(r));
    for (size_t k = 1; k < r.size(); k++) for (auto &sh : scS)
        if (hitsInteriorD(sh, r.ps[k - 1].x, r.ps[k - 1].y, r.ps[k].x, r.ps[k].y, 1e-6)) {
            vector<string> kc2 = kc; cut_classes(sh, scS, r.ps[k - 1].x, r.ps[k - 1].y, r.ps[k].x, r.ps[k].y, ortho, kc2);
            // polyline routing treats the buffer zone as part of the shape: an endpoint inside it or ON its border counts as enclosed by the shape, which is then no obstacle for that connector (KF-C03-6)
            if (!ortho && g_bufNow > 0 && (inClosedBufferZone(sh, a.x * S, a.y * S, g_bufNow) || inClosedBufferZone(sh, b.x * S, b.y * S, g_bufNow))) kc2.push_back("polyline_endpoint_in_closed_buffer_zone_of_cut_shape");
            ctx.violation("through_shape", kc2, desc, route_str(r)); return; }
    if (ortho) for (size_t k = 1; k < r.size(); k++) if (r.ps[k].x != r.ps[k - 1].x && r.ps[k].y != r.ps[k - 1].y) { ctx.violation("not_orthogonal", kc, desc, route_str(r)); return; }
}
static vector<Poly> scaledBy(const vector<Poly> &sc, long long m) { vector<Poly> o = sc; for (auto &p : o) for (auto &v : p.v) { v.x *= m; v.y *= m; } return o; }
static vector<Poly> scaled(const vector<Poly> &sc) { vector<Poly> o = sc; for (auto &p : o) for (auto &v : p.v) { v.x *= S; v.y *= S; } return o; }

static void c03_phase(int G, int k, bool ortho, double buf, bool touchingWithBuffer) {
    vector<Poly> alpha = shape_alphabet(G, !ortho);
    ctx.phase(mcx::fmt("C03 %s G=%d shapes=%d buffer=%g%s", ortho ? "orthogonal" : "polyline", G, k, buf, touchingWithBuffer ? " (shapes closer than 2*buffer)" : ""));
    for_scenes(alpha, k, 0, false, [&](const vector<Poly> &sc) {
        bool close = false;
        if (buf > 0) for (size_t i = 0; i < sc.size(); i++) for (size_t j = i + 1; j < sc.size(); j++) if (polyDist(sc[i], sc[j]) * S < 2 * buf + 1e-9) close = true;
        if (buf > 0 && close != touchingWithBuffer) return;
        if (!ctx.next()) return;
        vector<string> kc; if (close) kc.push_back("buffer_overlap");
        vector<P> fr = free_points(sc, G); vector<Poly> scS = scaled(sc);
        g_bufNow = buf;
        // several orthogonal connectors in one router, some endpoint exactly ON the border of a buffer zone: that endpoint splits the border's visibility segment and the
        // search of the OTHER connectors does not pass foreign endpoint vertices (the mechanism of KF-C20-2), so they lose the way along that border (KF-C03-7)
        vector<string> kcAll = kc; if (ortho && buf > 0) { bool on = false; for (auto &q : fr) for (auto &sh : scS) if (inClosedBufferZone(sh, q.x * S, q.y * S, buf) && !inClosedBufferZone(sh, q.x * S, q.y * S, buf - 1e-6)) on = true; if (on) kcAll.push_back("other_connector_endpoint_on_a_buffer_border"); }
        ctx.count("states"); ctx.sample((ortho ? "orthogonal " : "polyline ") + scene_str(sc));
        vector<pair<P, P>> eps; for (size_t a = 0; a < fr.size(); a++) for (size_t b = a + 1; b < fr.size(); b++) eps.push_back({fr[a], fr[b]});
        try {
        if (!ortho) {
            // all connectors in one transaction (no nudging in polyline mode)
            Avoid::Router *r = mk_router(false, 0, buf, sc);
            vector<Avoid::ConnRef *> cs; for (auto &e : eps) cs.push_back(mk_conn(r, e.first, e.second));
            r->processTransaction();
            for (size_t i = 0; i < eps.size(); i++) judge_valid(sc, scS, eps[i].first, eps[i].second, cs[i]->displayRoute(), false, G, mcx::fmt("polyline buf=%g", buf), kc);
            delete r;
        } else {
            // (a) one connector per transaction, (b) all connectors of the scene in one transaction (nudging interplay)
            Avoid::Router *r = mk_router(true, 10, buf, sc);
            for (auto &e : eps) {
                Avoid::ConnRef *c = mk_conn(r, e.first, e.second); r->processTransaction();
                judge_valid(sc, scS, e.first, e.second, c->displayRoute(), true, G, mcx::fmt("orthogonal single buf=%g", buf), kc);
                r->deleteConnector(c);
            }
            r->processTransaction();
            delete r;
            if (G <= 3) {
                r = mk_router(true, 10, buf, sc);
                vector<Avoid::ConnRef *> cs; for (auto &e : eps) cs.push_back(mk_conn(r, e.first, e.second));
                r->processTransaction();
                for (size_t i = 0; i < eps.size(); i++) judge_valid(sc, scS, eps[i].first, eps[i].second, cs[i]->displayRoute(), true, G, mcx::fmt("orthogonal all-in-one buf=%g", buf), kcAll);
                delete r;
            }
        }
        } catch (vpsc::CriticalFailure &f) { ctx.library_abort(f.what(), (ortho ? "orthogonal " : "polyline ") + mcx::fmt("buf=%g scene ", buf) + scene_str(sc)); }
        g_bufNow = 0; ctx.done_case();
    });
}


// connectors with a routing CHECKPOINT (whose arrival directions may be restricted): the route is searched leg by leg, with the checkpoint's visibility
// switched per leg.  Whether the checkpoint is visited is C11's business; here only the C03 clauses: joins its endpoints, stays out of the shapes.
// Every scene x every checkpoint position x every 3rd endpoint pair x arrival directions {all, left, up} (departure unrestricted).
static void c03_checkpoint_phase(int G, int k, bool ortho) {
    vector<Poly> alpha = shape_alphabet(G, false);
    ctx.phase(mcx::fmt("C03 %s G=%d shapes=%d, one connector with a checkpoint at every free point, arrival directions {all, left, up}", ortho ? "orthogonal" : "polyline", G, k));
    for_scenes(alpha, k, 0, false, [&](const vector<Poly> &sc) {
        if (!ctx.next()) return;
        vector<P> fr = free_points(sc, G); vector<Poly> scS = scaled(sc); ctx.count("states"); ctx.sample(string(ortho ? "orthogonal" : "polyline") + " checkpoint " + scene_str(sc));
        static const unsigned AD[3] = {Avoid::ConnDirAll, Avoid::ConnDirLeft, Avoid::ConnDirUp};
        try { size_t cnt = 0;
            for (size_t a = 0; a < fr.size(); a++) for (size_t b = a + 1; b < fr.size(); b++) { if ((cnt++ % 3) != 0) continue;
                for (size_t c = 0; c < fr.size(); c++) { if (c == a || c == b) continue; for (int ad = 0; ad < 3; ad++) {
                    Avoid::Router *r = mk_router(ortho, ortho ? 10 : 0, 0, sc); Avoid::ConnRef *cn = mk_conn(r, fr[a], fr[b]);
                    std::vector<Avoid::Checkpoint> cps; cps.push_back(Avoid::Checkpoint(Avoid::Point(fr[c].x * S, fr[c].y * S), (Avoid::ConnDirFlags)AD[ad], Avoid::ConnDirAll)); cn->setRoutingCheckpoints(cps);
                    r->processTransaction();
                    judge_valid(sc, scS, fr[a], fr[b], cn->displayRoute(), ortho, G, mcx::fmt("%s checkpoint (%lld,%lld) arrival=%u", ortho ? "orthogonal" : "polyline", fr[c].x, fr[c].y, AD[ad]), {});
                    delete r; } } }
        } catch (vpsc::CriticalFailure &f) { ctx.library_abort(f.what(), string(ortho ? "orthogonal" : "polyline") + " checkpoint scene " + scene_str(sc)); }
        ctx.done_case();
    });
}

// scenes of k rectangles created in EVERY order (shapes are added one after the other inside the first transaction, and
// what a later shape blocks is decided by a different code path than the sweep that computes visibility for a new shape)
static void c03_orders_phase(int G, int k, int epStep) {
    vector<Poly> alpha = shape_alphabet(G, false);
    ctx.phase(mcx::fmt("C03 polyline G=%d rectangles=%d in every creation order, every %d-th endpoint pair", G, k, epStep));
    for_scenes(alpha, k, 0, false, [&](const vector<Poly> &sc0) {
        vector<int> perm(k); for (int i = 0; i < k; i++) perm[i] = i;
        do {
            if (!ctx.next()) continue;
            vector<Poly> sc; for (int i : perm) sc.push_back(sc0[i]);
            vector<P> fr = free_points(sc, G); for (int x = -1; x <= G + 1; x++) for (int y = -1; y <= G + 1; y++) if (x < 0 || y < 0 || x > G || y > G) fr.push_back(P{x, y});
            vector<Poly> scS = scaled(sc); ctx.count("states"); ctx.sample("polyline creation order " + scene_str(sc), 1);
            try {
                Avoid::Router *r = mk_router(false, 0, 0, sc);
                vector<Avoid::ConnRef *> cs; vector<pair<P, P>> eps; size_t c = 0;
                for (size_t a = 0; a < fr.size(); a++) for (size_t b = a + 1; b < fr.size(); b++) if ((c++ % epStep) == 0) { eps.push_back({fr[a], fr[b]}); cs.push_back(mk_conn(r, fr[a], fr[b])); }
                r->processTransaction();
                for (size_t i = 0; i < eps.size(); i++) judge_valid(sc, scS, eps[i].first, eps[i].second, cs[i]->displayRoute(), false, G, "polyline creation-order", {});
                delete r;
            } catch (vpsc::CriticalFailure &f) { ctx.library_abort(f.what(), "polyline creation order " + scene_str(sc)); }
            ctx.done_case();
        } while (next_permutation(perm.begin(), perm.end()));
    });
}


// ---- C03, shape-attached ends and option sets ----------------------------------------------
// The ordinary use of libavoid: connectors run between *shapes* (centre pins), not free points.  Every scene of k rectangles,
// a centre pin on each, one connector for every pair of shapes and one from every shape to every free grid point, all routed in
// one transaction, under several option/penalty sets.  "shapes that contain one of its endpoints" = the attached shapes.
struct OptSet { const char *name; double crossing, angle, shared, reverse; bool penaliseEnds, unify, touching; };
static const OptSet OPTSETS[] = {
    {"defaults", 0, 0, 0, 0, false, true, false},
    {"crossing+sharedPath+angle penalties", 200, 30, 110, 0, false, true, false},
    {"penaliseOrthogonalSharedPathsAtConnEnds, no unifying step, nudge touching colinear", 0, 0, 50, 0, true, false, true},
    {"reverseDirectionPenalty+crossingPenalty", 100, 0, 0, 60, false, true, false},
};
static void c03_attached_phase(int G, int k, bool ortho, double buf, int os) {
    vector<Poly> alpha = shape_alphabet(G, false);
    const OptSet &O = OPTSETS[os];
    ctx.phase(mcx::fmt("C03 %s G=%d rectangles=%d buffer=%g, ends attached to shape centre pins, options: %s", ortho ? "orthogonal" : "polyline", G, k, buf, O.name));
    for_scenes(alpha, k, 0, false, [&](const vector<Poly> &sc) {
        bool close = false;
        if (buf > 0) for (size_t i = 0; i < sc.size(); i++) for (size_t j = i + 1; j < sc.size(); j++) if (polyDist(sc[i], sc[j]) * S < 2 * buf + 1e-9) close = true;
        if (close) return;                      // overlapping buffers: KF-C03-1, judged by the free-point phases
        if (!ctx.next()) return;
        ctx.count("states"); ctx.sample((ortho ? "orthogonal attached " : "polyline attached ") + scene_str(sc), 1);
        vector<P> fr = free_points(sc, G); vector<Poly> scS = scaled(sc);
        string what = mcx::fmt("%s attached buf=%g options[%s]", ortho ? "orthogonal" : "polyline", buf, O.name);
        try {
            Avoid::Router *r = mk_router(ortho, ortho ? 10 : 0, buf, {});
            r->setRoutingParameter(Avoid::crossingPenalty, O.crossing); r->setRoutingParameter(Avoid::anglePenalty, O.angle);
            r->setRoutingParameter(Avoid::fixedSharedPathPenalty, O.shared); r->setRoutingParameter(Avoid::reverseDirectionPenalty, O.reverse);
            r->setRoutingOption(Avoid::penaliseOrthogonalSharedPathsAtConnEnds, O.penaliseEnds);
            r->setRoutingOption(Avoid::performUnifyingNudgingPreprocessingStep, O.unify);
            r->setRoutingOption(Avoid::nudgeOrthogonalTouchingColinearSegments, O.touching);
            vector<Avoid::ShapeRef *> shs; for (auto &sh : sc) { Avoid::Polygon pg(sh.v.size()); for (size_t q = 0; q < sh.v.size(); q++) pg.ps[q] = Avoid::Point(sh.v[q].x * S, sh.v[q].y * S); shs.push_back(new Avoid::ShapeRef(r, pg)); }
            for (auto *sh : shs) new Avoid::ShapeConnectionPin(sh, Avoid::CONNECTIONPIN_CENTRE, Avoid::ATTACH_POS_CENTRE, Avoid::ATTACH_POS_CENTRE, true, 0.0, Avoid::ConnDirNone);
            struct CI { int a, b; P q; Avoid::ConnRef *c; }; vector<CI> cs;
            for (int i = 0; i < k; i++) for (int j = i + 1; j < k; j++) cs.push_back({i, j, P{0, 0}, new Avoid::ConnRef(r, Avoid::ConnEnd(shs[i], Avoid::CONNECTIONPIN_CENTRE), Avoid::ConnEnd(shs[j], Avoid::CONNECTIONPIN_CENTRE))});
            for (int i = 0; i < k; i++) for (auto &q : fr) cs.push_back({i, -1, q, new Avoid::ConnRef(r, Avoid::ConnEnd(shs[i], Avoid::CONNECTIONPIN_CENTRE), Avoid::ConnEnd(Avoid::Point(q.x * S, q.y * S)))});
            r->processTransaction();
            for (auto &ci : cs) {
                ctx.count("transitions"); ctx.count("evaluations");
                const Avoid::PolyLine &rt = ci.c->displayRoute();
                // everything doubled so that rectangle centres are integers
                auto dbl = [](const Poly &p) { Poly o = p; for (auto &v : o.v) { v.x *= 2; v.y *= 2; } return o; };
                R ra = toR(sc[ci.a]); P s2{ra.x0 + ra.x1, ra.y0 + ra.y1}, t2;
                if (ci.b >= 0) { R rb = toR(sc[ci.b]); t2 = P{rb.x0 + rb.x1, rb.y0 + rb.y1}; } else t2 = P{2 * ci.q.x, 2 * ci.q.y};
                vector<Poly> others2, othersS; for (int m = 0; m < k; m++) if (m != ci.a && m != ci.b) { others2.push_back(dbl(sc[m])); othersS.push_back(scS[m]); }
                string desc = what + " scene " + scene_str(sc) + (ci.b >= 0 ? mcx::fmt(" conn shape#%d -> shape#%d", ci.a, ci.b) : mcx::fmt(" conn shape#%d -> (%lld,%lld)", ci.a, ci.q.x, ci.q.y));
                bool blocked = false; for (auto &o : others2) if (hitsInterior(o, s2, t2)) blocked = true;
                if (blocked) ctx.count("nontrivial");
                bool pathExists;
                if (!ortho) { VisGraph vg(others2, s2, t2); pathExists = vg.reachable(); }
                else {
                    // 4x grid: doubled coordinates doubled again so that the thin blockers closing zero-width corridors fit
                    vector<R> r4; for (int m = 0; m < k; m++) if (m != ci.a && m != ci.b) { R q = toR(sc[m]); r4.push_back({4 * q.x0, 4 * q.y0, 4 * q.x1, 4 * q.y1}); }
                    for (int m = 0; m < k; m++) for (int n = 0; n < k; n++) if (m != n) { R A = toR(sc[m]), B = toR(sc[n]);
                        if (A.x1 == B.x0) { int lo = max(A.y0, B.y0), hi = min(A.y1, B.y1); if (lo < hi) r4.push_back({4 * A.x1 - 1, 4 * lo, 4 * A.x1 + 1, 4 * hi}); }
                        if (A.y1 == B.y0) { int lo = max(A.x0, B.x0), hi = min(A.x1, B.x1); if (lo < hi) r4.push_back({4 * lo, 4 * A.y1 - 1, 4 * hi, 4 * A.y1 + 1}); } }
                    OrthoGrid og(4 * G, r4); pathExists = og.best(2 * s2.x, 2 * s2.y, 2 * t2.x, 2 * t2.y, 0, 15, 15, 4) < 1e17;
                }
                if (!pathExists) { ctx.count("no_free_path"); continue; }
                if (rt.size() < 2) { ctx.violation("route_too_short", {"attached"}, desc, route_str(rt)); continue; }
                double sx = s2.x * S / 2.0, sy = s2.y * S / 2.0, tx = t2.x * S / 2.0, ty = t2.y * S / 2.0;
                if (rt.ps[0].x != sx || rt.ps[0].y != sy || rt.ps[rt.size() - 1].x != tx || rt.ps[rt.size() - 1].y != ty) ctx.violation("endpoints_moved", {"attached"}, desc, route_str(rt));
                bool bad = false;
                for (size_t q = 1; q < rt.size() && !bad; q++) for (int m = 0; m < k && !bad; m++) if (m != ci.a && m != ci.b && hitsInteriorD(scS[m], rt.ps[q - 1].x, rt.ps[q - 1].y, rt.ps[q].x, rt.ps[q].y, 1e-6)) {
                    bad = true; vector<string> kc2{"attached"}; cut_classes(scS[m], scS, rt.ps[q - 1].x, rt.ps[q - 1].y, rt.ps[q].x, rt.ps[q].y, ortho, kc2);
                    // class ray_through_abutting_shape_with_aligned_pin: the offending segment starts/ends at the centre pin of an attached
                    // shape, is axis-parallel, the cut shape ABUTS that attached shape (closed rectangles meet) and the cut shape's own centre
                    // pin lies on the segment's line: the two pins' visibility segments touch on the common side and are merged into one
                    // line of sight that runs through the cut shape.
                    // (the cut shape may also be reached through a CHAIN of abutting shapes whose centre pins are all on that line)
                    for (int e : {ci.a, ci.b}) if (e >= 0) { R re = toR(sc[e]); double ex = (re.x0 + re.x1) * S / 2.0, ey = (re.y0 + re.y1) * S / 2.0;
                        bool atEnd = (q == 1 && rt.ps[0].x == ex && rt.ps[0].y == ey) || (q + 1 == rt.size() && rt.ps[q].x == ex && rt.ps[q].y == ey);
                        bool vert = rt.ps[q - 1].x == rt.ps[q].x, hori = rt.ps[q - 1].y == rt.ps[q].y; if (!atEnd || !(vert || hori)) continue;
                        vector<char> reach(k, 0); reach[e] = 1; bool grew = true;
                        while (grew) { grew = false; for (int u = 0; u < k; u++) if (reach[u]) for (int w2 = 0; w2 < k; w2++) if (!reach[w2]) { R ru = toR(sc[u]), rw = toR(sc[w2]); double wx = (rw.x0 + rw.x1) * S / 2.0, wy = (rw.y0 + rw.y1) * S / 2.0;
                            bool abut = !(ru.x1 < rw.x0 || rw.x1 < ru.x0 || ru.y1 < rw.y0 || rw.y1 < ru.y0); if (abut && ((vert && wx == ex) || (hori && wy == ey))) { reach[w2] = 1; grew = true; } } }
                        if (reach[m] && find(kc2.begin(), kc2.end(), "ray_through_abutting_shape_with_aligned_pin") == kc2.end()) kc2.push_back("ray_through_abutting_shape_with_aligned_pin"); }
                    ctx.violation("through_shape", kc2, desc, route_str(rt)); }
                if (bad) continue;
                if (ortho) for (size_t q = 1; q < rt.size(); q++) if (rt.ps[q].x != rt.ps[q - 1].x && rt.ps[q].y != rt.ps[q - 1].y) { ctx.violation("not_orthogonal", {"attached"}, desc, route_str(rt)); break; }
            }
            delete r;
        } catch (vpsc::CriticalFailure &f) { ctx.library_abort(f.what(), what + " scene " + scene_str(sc)); }
        ctx.done_case();
    });
}


// ---- C03, side pins + end-segment nudging -------------------------------------------------------
// Two shapes joined pin-to-pin (a pin at the middle of a side, pointing outward) with a third rectangle as obstacle, every scene of
// three rectangles at least one cell apart, every ordered choice of the two attached shapes and of the two sides, under the option
// sets that let nudging move END segments (nudgeOrthogonalSegmentsConnectedToShapes) and merge/align collinear segments.  With
// end-segment nudging the ends may slide along the shape they are attached to, so the end clause is "on or in the attached
// shape"; otherwise it is "at the pin".  No segment may meet the interior of the third shape.
struct NOpt { const char *name; bool es, tc, un; };
static const NOpt NOPTS[] = { {"default nudging", false, false, true}, {"end-segment nudging", true, false, true}, {"end-segment nudging + touching colinear", true, true, true},
                              {"end-segment nudging + touching colinear, no unifying step", true, true, false}, {"touching colinear only", false, true, true} };
// C15 replay only: build the scene, route, destroy the router -- twice -- and compare the number of live allocations (the leak oracle of the Router histories,
// applied to scenes the histories do not contain: pin-to-pin connectors under the nudging options).  Reported only if the second run leaks as well.
template <class F> static void c15_leak_probe(const string &desc, F buildRouteDestroy) {
    if (!ctx.c15()) return;
    long b = mcx::heap_live_system(); buildRouteDestroy(); long d1 = mcx::heap_live_system() - b;
    if (d1 > 0) { long b2 = mcx::heap_live_system(); buildRouteDestroy(); long d2 = mcx::heap_live_system() - b2;
        if (d2 > 0) ctx.raw_violation("leak", {"site:leak after ~Router"}, desc, mcx::fmt("%ld allocations still live after the router was destroyed (repeatable)", d2)); }
}
static void c03_pinpair_phase(int G, int no, double buf) {
    vector<Poly> alpha = shape_alphabet(G, false); const NOpt &O = NOPTS[no];
    ctx.phase(mcx::fmt("C03 orthogonal G=%d three rectangles >=1 cell apart, connector between side pins of two of them, buffer=%g, %s", G, buf, O.name));
    for_scenes(alpha, 3, 1, true, [&](const vector<Poly> &sc) {
        if (!ctx.next()) return;
        ctx.count("states"); ctx.sample("pin-to-pin " + scene_str(sc), 1);
        vector<Poly> scS = scaled(sc); vector<R> r2; for (auto &p : sc) { R q = toR(p); r2.push_back({2 * q.x0, 2 * q.y0, 2 * q.x1, 2 * q.y1}); }
        OrthoGrid og(2 * G, r2);
        // side k: 0 = right (+x), 1 = bottom (+y, libavoid's "down"), 2 = left, 3 = top
        auto pinpos2 = [&](int sh, int side) { R q = toR(sc[sh]); return side == 0 ? P{2 * q.x1, q.y0 + q.y1} : side == 1 ? P{q.x0 + q.x1, 2 * q.y1} : side == 2 ? P{2 * q.x0, q.y0 + q.y1} : P{q.x0 + q.x1, 2 * q.y0}; };
        const double xo[4] = {Avoid::ATTACH_POS_RIGHT, Avoid::ATTACH_POS_CENTRE, Avoid::ATTACH_POS_LEFT, Avoid::ATTACH_POS_CENTRE}, yo[4] = {Avoid::ATTACH_POS_CENTRE, Avoid::ATTACH_POS_BOTTOM, Avoid::ATTACH_POS_CENTRE, Avoid::ATTACH_POS_TOP};
        const unsigned dirf[4] = {Avoid::ConnDirRight, Avoid::ConnDirDown, Avoid::ConnDirLeft, Avoid::ConnDirUp};
        for (int a = 0; a < 3; a++) for (int b = 0; b < 3; b++) if (a != b) for (int sa = 0; sa < 4; sa++) for (int sb = 0; sb < 4; sb++) {
            int c3 = 3 - a - b;
            ctx.count("transitions"); ctx.count("evaluations");
            string desc = mcx::fmt("orthogonal pin-to-pin buf=%g [%s] scene ", buf, O.name) + scene_str(sc) + mcx::fmt(" conn shape#%d side %d -> shape#%d side %d", a, sa, b, sb);
            try {
                c15_leak_probe(desc, [&]() { Avoid::Router *r = mk_router(true, 10, buf, {});
                    r->setRoutingOption(Avoid::nudgeOrthogonalSegmentsConnectedToShapes, O.es); r->setRoutingOption(Avoid::nudgeOrthogonalTouchingColinearSegments, O.tc); r->setRoutingOption(Avoid::performUnifyingNudgingPreprocessingStep, O.un);
                    vector<Avoid::ShapeRef *> shs; for (auto &sh : sc) { Avoid::Polygon pg(sh.v.size()); for (size_t q = 0; q < sh.v.size(); q++) pg.ps[q] = Avoid::Point(sh.v[q].x * S, sh.v[q].y * S); shs.push_back(new Avoid::ShapeRef(r, pg)); }
                    new Avoid::ShapeConnectionPin(shs[a], 1, xo[sa], yo[sa], true, 0.0, dirf[sa]); new Avoid::ShapeConnectionPin(shs[b], 2, xo[sb], yo[sb], true, 0.0, dirf[sb]);
                    new Avoid::ConnRef(r, Avoid::ConnEnd(shs[a], 1), Avoid::ConnEnd(shs[b], 2)); r->processTransaction(); delete r; });
                Avoid::Router *r = mk_router(true, 10, buf, {});
                r->setRoutingOption(Avoid::nudgeOrthogonalSegmentsConnectedToShapes, O.es); r->setRoutingOption(Avoid::nudgeOrthogonalTouchingColinearSegments, O.tc);
                r->setRoutingOption(Avoid::performUnifyingNudgingPreprocessingStep, O.un);
                vector<Avoid::ShapeRef *> shs; for (auto &sh : sc) { Avoid::Polygon pg(sh.v.size()); for (size_t q = 0; q < sh.v.size(); q++) pg.ps[q] = Avoid::Point(sh.v[q].x * S, sh.v[q].y * S); shs.push_back(new Avoid::ShapeRef(r, pg)); }
                new Avoid::ShapeConnectionPin(shs[a], 1, xo[sa], yo[sa], true, 0.0, dirf[sa]); new Avoid::ShapeConnectionPin(shs[b], 2, xo[sb], yo[sb], true, 0.0, dirf[sb]);
                Avoid::ConnRef *c = new Avoid::ConnRef(r, Avoid::ConnEnd(shs[a], 1), Avoid::ConnEnd(shs[b], 2));
                r->processTransaction();
                Avoid::PolyLine rt = c->displayRoute(); delete r;
                P s2 = pinpos2(a, sa), t2 = pinpos2(b, sb);
                double pathc = og.best(s2.x, s2.y, t2.x, t2.y, 0, 1 << sa, 1 << ((sb + 2) % 4), 4);
                if (pathc > 1e17) { ctx.count("no_free_path"); continue; }
                ctx.count("nontrivial");
                if (rt.size() < 2) { ctx.violation("route_too_short", {"pinpair"}, desc, route_str(rt)); continue; }
                auto onOrIn = [&](const Avoid::Point &q, int sh) { R e = toR(sc[sh]); return q.x >= e.x0 * S - 1e-9 && q.x <= e.x1 * S + 1e-9 && q.y >= e.y0 * S - 1e-9 && q.y <= e.y1 * S + 1e-9; };
                bool endsOk = O.es ? (onOrIn(rt.ps[0], a) && onOrIn(rt.ps[rt.size() - 1], b))
                                   : (rt.ps[0].x == s2.x * S / 2.0 && rt.ps[0].y == s2.y * S / 2.0 && rt.ps[rt.size() - 1].x == t2.x * S / 2.0 && rt.ps[rt.size() - 1].y == t2.y * S / 2.0);
                if (!endsOk) ctx.violation("endpoints_moved", {"pinpair"}, desc, route_str(rt));
                bool bad = false;
                for (size_t q = 1; q < rt.size() && !bad; q++) if (hitsInteriorD(scS[c3], rt.ps[q - 1].x, rt.ps[q - 1].y, rt.ps[q].x, rt.ps[q].y, 1e-6)) { bad = true; ctx.violation("through_shape", {"pinpair"}, desc, route_str(rt)); }
                if (bad) continue;
                for (size_t q = 1; q < rt.size(); q++) if (rt.ps[q].x != rt.ps[q - 1].x && rt.ps[q].y != rt.ps[q - 1].y) { ctx.violation("not_orthogonal", {"pinpair"}, desc, route_str(rt)); break; }
                ctx.cls("pinpair_points", mcx::fmt("%zu", rt.size()));
            } catch (vpsc::CriticalFailure &f) { ctx.library_abort(f.what(), desc); }
        }
        ctx.done_case();
    });
}


static int dirmask_start(unsigned f); static int dirmask_end(unsigned f);
// ---- C03, nested C-bends: two connectors on one column (row) whose free ends may only be left in ONE direction ---------------------
// Both connectors have to make a C-shaped detour on the same side; when that side is the flank of a rectangle the two middle segments lie
// on one line against the obstacle and nudging has to separate them WITHOUT pushing one of them into the rectangle.
static void c03_cbend_phase(int G, int k) {
    vector<Poly> alpha = shape_alphabet(G, false);
    ctx.phase(mcx::fmt("C03 orthogonal G=%d rectangles=%d: two connectors on one column/row, all four ends restricted to one direction (C-bends against the same flank), nudging on", G, k));
    vector<pair<int, int>> iv; for (int a = 0; a <= G; a++) for (int b = a + 1; b <= G; b++) iv.push_back({a, b});
    for_scenes(alpha, k, 1, true, [&](const vector<Poly> &sc) {
        if (!ctx.next()) return;
        ctx.count("states"); ctx.sample("C-bends " + scene_str(sc), 1);
        vector<Poly> scS = scaled(sc); vector<R> rs; for (auto &p : sc) rs.push_back(toR(p)); OrthoGrid og(G, rs);
        unsigned dl[4] = {Avoid::ConnDirLeft, Avoid::ConnDirRight, Avoid::ConnDirUp, Avoid::ConnDirDown};
        for (int d = 0; d < 4; d++) for (int line = 0; line <= G; line++) for (size_t i = 0; i < iv.size(); i++) for (size_t j = i + 1; j < iv.size(); j++) {
            bool vert = d < 2;   // connectors run along a column and leave sideways, or along a row and leave up/down
            P e[4] = {vert ? P{line, iv[i].first} : P{iv[i].first, line}, vert ? P{line, iv[i].second} : P{iv[i].second, line}, vert ? P{line, iv[j].first} : P{iv[j].first, line}, vert ? P{line, iv[j].second} : P{iv[j].second, line}};
            bool freeEnds = true; for (auto &q : e) for (auto &sh : sc) if (inClosed(sh, q)) freeEnds = false; if (!freeEnds) continue;
            ctx.count("transitions"); ctx.count("evaluations");
            string desc = mcx::fmt("orthogonal C-bends dir=%u scene ", dl[d]) + scene_str(sc) + mcx::fmt(" conns (%lld,%lld)->(%lld,%lld) (%lld,%lld)->(%lld,%lld)", e[0].x, e[0].y, e[1].x, e[1].y, e[2].x, e[2].y, e[3].x, e[3].y);
            try {
                Avoid::Router *r = mk_router(true, 50, 0, sc);
                Avoid::ConnRef *c1 = mk_conn(r, e[0], e[1], dl[d], dl[d]), *c2 = mk_conn(r, e[2], e[3], dl[d], dl[d]);
                r->processTransaction();
                Avoid::ConnRef *cs[2] = {c1, c2};
                for (int q = 0; q < 2; q++) {
                    const Avoid::PolyLine &rt = cs[q]->displayRoute(); P a = e[2 * q], b = e[2 * q + 1];
                    double o = og.best(a.x, a.y, b.x, b.y, 0, dirmask_start(dl[d]), dirmask_end(dl[d]), 2);
                    if (o > 1e17) { ctx.count("no_free_path"); continue; }
                    ctx.count("nontrivial");
                    if (rt.size() < 2) { ctx.violation("route_too_short", {"cbend"}, desc, route_str(rt)); continue; }
                    if (rt.ps[0].x != a.x * S || rt.ps[0].y != a.y * S || rt.ps[rt.size() - 1].x != b.x * S || rt.ps[rt.size() - 1].y != b.y * S) ctx.violation("endpoints_moved", {"cbend"}, desc, route_str(rt));
                    bool bad = false;
                    for (size_t t = 1; t < rt.size() && !bad; t++) for (auto &sh : scS) if (hitsInteriorD(sh, rt.ps[t - 1].x, rt.ps[t - 1].y, rt.ps[t].x, rt.ps[t].y, 1e-6)) { bad = true; ctx.violation("through_shape", {"cbend"}, desc, mcx::fmt("connector %d: ", q) + route_str(rt)); break; }
                    if (!bad) for (size_t t = 1; t < rt.size(); t++) if (rt.ps[t].x != rt.ps[t - 1].x && rt.ps[t].y != rt.ps[t - 1].y) { ctx.violation("not_orthogonal", {"cbend"}, desc, route_str(rt)); break; }
                }
                delete r;
            } catch (vpsc::CriticalFailure &f) { ctx.library_abort(f.what(), desc); }
        }
        ctx.done_case();
    });
}

// ---- C04 ------------------------------------------------------------------------------
static void c04_phase(int G, int k, double penCells, bool tris) {
    vector<Poly> alpha = shape_alphabet(G, tris);
    ctx.phase(mcx::fmt("C04 polyline G=%d shapes=%d segmentPenalty=%g cells %s", G, k, penCells, tris ? "rect+tri" : "rect"));
    for_scenes(alpha, k, 0, false, [&](const vector<Poly> &sc) {
        if (!ctx.next()) return;
        vector<P> fr = free_points(sc, G);
        ctx.count("states"); ctx.sample(mcx::fmt("pen=%g ", penCells) + scene_str(sc));
        try {
        Avoid::Router *r = mk_router(false, penCells * S, 0, sc);
        vector<Avoid::ConnRef *> cs; vector<pair<P, P>> eps;
        for (size_t a = 0; a < fr.size(); a++) for (size_t b = a + 1; b < fr.size(); b++) { eps.push_back({fr[a], fr[b]}); cs.push_back(mk_conn(r, fr[a], fr[b])); }
        r->processTransaction();
        for (size_t i = 0; i < eps.size(); i++) {
            ctx.count("transitions"); ctx.count("evaluations");
            const Avoid::PolyLine &rt = cs[i]->displayRoute();
            // With a bend penalty "the optimum" needs a path class (in the continuum a bend anywhere can be cheaper).
            // Two classes bracket every reasonable reading: LB = optimum over all paths of the tangent visibility graph
            // (legs inside the corners' tangent wedges, any turn), UB = optimum over rubber-band paths (every bend wraps
            // round its corner).  For penalty 0 both equal the Euclidean shortest path.  Required: LB <= cost <= UB.
            VisGraph vg(sc, eps[i].first, eps[i].second, penCells > 0);
            double o = vg.shortest(penCells, penCells > 0), lb = penCells > 0 ? vg.shortest(penCells, false) : o;
            if (o > 1e17) { ctx.count("no_free_path"); continue; }
            // vacuity audit: does the penalty matter here, i.e. is the optimum under the penalty LONGER than the Euclidean shortest path (it saves a bend)?
            if (penCells > 0) { double L0 = vg.shortest(0, false), q2 = (o - L0) / penCells; if (fabs(q2 - lround(q2)) > 1e-7) ctx.count("optimum_trades_length_for_a_bend"); }
            double len = 0; for (size_t q = 1; q < rt.size(); q++) len += hypot(rt.ps[q].x - rt.ps[q - 1].x, rt.ps[q].y - rt.ps[q - 1].y);
            double cost = len / S + penCells * (rt.size() > 2 ? rt.size() - 2 : 0);
            if (straight_blocked(sc, eps[i].first, eps[i].second)) ctx.count("nontrivial");
            ctx.cls("bends", mcx::fmt("%zu", rt.size() > 2 ? rt.size() - 2 : 0));
            // a route that cuts through a shape is C03's business (and its known findings); optimality is judged on valid routes
            { bool inval = false; vector<Poly> scS = scaled(sc); for (size_t q = 1; q < rt.size() && !inval; q++) for (auto &sh : scS) if (hitsInteriorD(sh, rt.ps[q - 1].x, rt.ps[q - 1].y, rt.ps[q].x, rt.ps[q].y, 1e-6)) inval = true; if (inval) { ctx.count("invalid_route_left_to_C03"); continue; } }
            if (cost > o + 1e-6 || cost < lb - 1e-6) {
                string desc = mcx::fmt("segmentPenalty=%g cells scene ", penCells) + scene_str(sc) + mcx::fmt(" conn (%lld,%lld)->(%lld,%lld)", eps[i].first.x, eps[i].first.y, eps[i].second.x, eps[i].second.y);
                ctx.violation(cost > o ? "longer_than_optimal" : "shorter_than_possible", {}, desc, mcx::fmt("route cost %.9g, rubber-band optimum %.9g, tangent-graph optimum %.9g, route ", cost, o, lb) + route_str(rt));
            }
        }
        delete r;
        } catch (vpsc::CriticalFailure &f) { ctx.library_abort(f.what(), mcx::fmt("polyline segmentPenalty=%g scene ", penCells) + scene_str(sc)); }
        ctx.done_case();
    });
}

// Near-ties: on the integer grid two homotopically different routes either have exactly the same length or differ by a large fraction of a
// cell, so nothing ever lands between the property's tolerance (1e-6) and a visible difference.  Here one shape of the scene is displaced by
// 1 or 4 units of 2^-19 cell (1.9e-5 / 7.6e-5 library units; exact in binary), in each of the four axis directions: the mirror routes round
// that shape now differ by something between 1e-6 and 1e-4, and the router still has to return the shorter one.  Oracle: the same exact
// visibility graph, on the integer micro-cell coordinates.
static void c04_neartie_phase(int G, int k, bool tris) {
    const ll M = 1 << 19; vector<Poly> alpha = shape_alphabet(G, tris);
    ctx.phase(mcx::fmt("C04 polyline near-ties G=%d shapes=%d %s: one shape displaced by 1 or 4 x 2^-19 cell in each axis direction", G, k, tris ? "rect+tri" : "rect"));
    for_scenes(alpha, k, 0, false, [&](const vector<Poly> &sc) {
        if (!ctx.next()) return;
        vector<P> fr = free_points(sc, G); ctx.count("states"); ctx.sample("near-ties " + scene_str(sc));
        static const int DX[4] = {1, -1, 0, 0}, DY[4] = {0, 0, 1, -1};
        for (size_t which = 0; which < sc.size(); which++) for (int dir = 0; dir < 4; dir++) for (ll delta : {1, 4}) {
            vector<Poly> scM = sc; for (auto &pl : scM) for (auto &v : pl.v) { v.x *= M; v.y *= M; } for (auto &v : scM[which].v) { v.x += DX[dir] * delta; v.y += DY[dir] * delta; }
            bool ov = false; for (size_t j = 0; j < scM.size(); j++) if (j != which && interiorsOverlap(scM[which], scM[j])) ov = true; if (ov) continue;
            string desc = "polyline near-tie scene " + scene_str(sc) + mcx::fmt(" shape %zu displaced by (%d,%d) x %lld x 2^-19 cell", which, DX[dir], DY[dir], delta);
            try {
                Avoid::Router *r = new Avoid::Router(Avoid::PolyLineRouting); r->setRoutingParameter(Avoid::segmentPenalty, 0); r->setRoutingParameter(Avoid::shapeBufferDistance, 0);
                for (auto &sh : scM) { Avoid::Polygon pg(sh.v.size()); for (size_t q = 0; q < sh.v.size(); q++) pg.ps[q] = Avoid::Point((double)sh.v[q].x * S / M, (double)sh.v[q].y * S / M); new Avoid::ShapeRef(r, pg); }
                vector<Avoid::ConnRef *> cs; vector<pair<P, P>> eps;
                for (size_t a = 0; a < fr.size(); a++) for (size_t b = 0; b < fr.size(); b++) if (a != b) { eps.push_back({fr[a], fr[b]}); cs.push_back(mk_conn(r, fr[a], fr[b])); }
                r->processTransaction();
                for (size_t i = 0; i < eps.size(); i++) {
                    ctx.count("transitions"); ctx.count("evaluations");
                    const Avoid::PolyLine &rt = cs[i]->displayRoute();
                    P aM{eps[i].first.x * M, eps[i].first.y * M}, bM{eps[i].second.x * M, eps[i].second.y * M};
                    VisGraph vg(scM, aM, bM, false); double oM = vg.shortest(0, false); if (oM > 1e17) { ctx.count("no_free_path"); continue; }
                    double o = oM * S / M;
                    // vacuity audit: a near-tie is present when the undisplaced scene has two tied mirror routes round the shape -- then the optimum DROPS whichever way
                    // the shape is displaced along this axis (minimum of two linear functions), whereas a unique optimum touching the shape gets longer one way
                    { vector<Poly> scN = scaledBy(sc, M); for (auto &v : scN[which].v) { v.x -= DX[dir] * delta; v.y -= DY[dir] * delta; } VisGraph v0(scaledBy(sc, M), aM, bM, false), vn(scN, aM, bM, false);
                      double o0 = v0.shortest(0, false) * S / M, on = vn.shortest(0, false) * S / M; if (o < o0 - 1e-7 && on < o0 - 1e-7) ctx.count("nontrivial"); }
                    double len = 0; for (size_t q = 1; q < rt.size(); q++) len += hypot(rt.ps[q].x - rt.ps[q - 1].x, rt.ps[q].y - rt.ps[q - 1].y);
                    bool inval = rt.size() < 2; for (size_t q = 1; q < rt.size() && !inval; q++) for (auto &sh : scM) { Poly u = sh; if (hitsInteriorD(u, rt.ps[q - 1].x * M / S, rt.ps[q - 1].y * M / S, rt.ps[q].x * M / S, rt.ps[q].y * M / S, 1e-3)) inval = true; }
                    if (inval) { ctx.count("invalid_route_left_to_C03"); continue; }
                    if (len > o + 1e-6 || len < o - 1e-6) ctx.violation(len > o ? "longer_than_optimal" : "shorter_than_possible", {"near_tie"}, desc + mcx::fmt(" conn (%lld,%lld)->(%lld,%lld)", eps[i].first.x, eps[i].first.y, eps[i].second.x, eps[i].second.y), mcx::fmt("route length %.12g, shortest path %.12g (difference %.3g), route ", len, o, len - o) + route_str(rt));
                }
                delete r;
            } catch (vpsc::CriticalFailure &f) { ctx.library_abort(f.what(), desc); }
        }
        ctx.done_case();
    });
}

// ---- C05 ------------------------------------------------------------------------------
static double ortho_cost(const Avoid::PolyLine &r, double penCells, bool &diag) {
    vector<Avoid::Point> ps; for (size_t i = 0; i < r.size(); i++) { if (!ps.empty() && ps.back().x == r.ps[i].x && ps.back().y == r.ps[i].y) continue; ps.push_back(r.ps[i]); }
    vector<Avoid::Point> q;
    for (auto &p : ps) {
        while (q.size() >= 2) { Avoid::Point &a = q[q.size() - 2], &b = q.back(); bool col = (a.x == b.x && b.x == p.x && ((b.y - a.y) * (p.y - b.y) > 0)) || (a.y == b.y && b.y == p.y && ((b.x - a.x) * (p.x - b.x) > 0)); if (col) q.pop_back(); else break; }
        q.push_back(p);
    }
    double len = 0; int bends = 0; diag = false;
    for (size_t i = 1; i < q.size(); i++) { if (q[i].x != q[i - 1].x && q[i].y != q[i - 1].y) diag = true; len += fabs(q[i].x - q[i - 1].x) + fabs(q[i].y - q[i - 1].y); }
    for (size_t i = 2; i < q.size(); i++) { bool rev = (q[i - 2].x == q[i - 1].x && q[i - 1].x == q[i].x) || (q[i - 2].y == q[i - 1].y && q[i - 1].y == q[i].y); bends += rev ? 2 : 1; }
    return len / S + penCells * bends;
}

// Optimum of length + pen*bends over the search space the router's A* is DOCUMENTED to explore: the router's own orthogonal visibility graph
// (read after the transaction) with the turn-pruning rule of makepath.cpp ("only turn where a shape edge lies ahead on the new line or in line
// with the target, unless still on the source's row/column") applied as a filter on successors -- but searched by a plain Dijkstra over
// (vertex, previous vertex) written here, sharing nothing with the library's A* (open list, heuristic, tie-breaks, cost targets).
// Used ONLY to classify known findings: a route dearer than the restricted optimum but EQUAL to this value is explained by the documented
// pruning rule alone (KF-C05-2); anything else in the search machinery shows up as a difference from this value and is reported.
static double pruned_space_optimum(Avoid::ConnRef *c, double pen) {
    using namespace Avoid; VertInf *src = c->src(), *tar = c->dst(); if (!src || !tar) return 1e18;
    typedef pair<VertInf *, VertInf *> St; map<St, double> d; typedef pair<double, St> Q; priority_queue<Q, vector<Q>, greater<Q>> pq;
    d[{src, nullptr}] = 0; pq.push({0, {src, nullptr}});
    while (!pq.empty()) {
        Q q = pq.top(); pq.pop(); VertInf *v = q.second.first, *prev = q.second.second; if (q.first > d[q.second] + 1e-12) continue;
        if (v == tar) return q.first;
        for (EdgeInf *e : v->orthogVisList) {
            if (e->isDisabled()) continue; VertInf *w = e->otherVert(v); if (prev && w == prev) continue;
            if (w->id.isConnPt() && w != tar) continue;
            const Point &bp = v->point, &np = w->point;
            bool nX = prev && prev->point.x != bp.x, nY = prev && prev->point.y != bp.y;
            if (bp.x == np.x && nX && !nY && bp.y != src->point.y) {
                if (np.y < bp.y) { if (!(v->orthogVisPropFlags & YL_EDGE) && bp.x != tar->point.x) continue; }
                else if (np.y > bp.y) { if (!(v->orthogVisPropFlags & YH_EDGE) && bp.x != tar->point.x) continue; } }
            if (bp.y == np.y && nY && !nX && bp.x != src->point.x) {
                if (np.x < bp.x) { if (!(v->orthogVisPropFlags & XL_EDGE) && bp.y != tar->point.y) continue; }
                else if (np.x > bp.x) { if (!(v->orthogVisPropFlags & XH_EDGE) && bp.y != tar->point.y) continue; } }
            double dist = e->getDist(); if (dist == 0) continue;
            double cst = q.first + dist;
            if (prev) { bool straight = (prev->point.x == bp.x && bp.x == np.x && (bp.y - prev->point.y) * (np.y - bp.y) > 0) || (prev->point.y == bp.y && bp.y == np.y && (bp.x - prev->point.x) * (np.x - bp.x) > 0);
                bool back = (prev->point.x == bp.x && bp.x == np.x && (bp.y - prev->point.y) * (np.y - bp.y) < 0) || (prev->point.y == bp.y && bp.y == np.y && (bp.x - prev->point.x) * (np.x - bp.x) < 0);
                if (back) cst += 2 * pen; else if (!straight) cst += pen; }
            St t{w, v}; auto it = d.find(t); if (it == d.end() || cst < it->second - 1e-12) { d[t] = cst; pq.push({cst, t}); }
        }
    }
    return 1e18;
}
// does the raw route reverse on itself (a point p[i] with p[i-1] and p[i+1] on the same side of it along one line)?
static bool doubles_back(const Avoid::PolyLine &r) {
    for (size_t i = 1; i + 1 < r.size(); i++) { double ax = r.ps[i].x - r.ps[i - 1].x, ay = r.ps[i].y - r.ps[i - 1].y, bx = r.ps[i + 1].x - r.ps[i].x, by = r.ps[i + 1].y - r.ps[i].y; if (ax * by - ay * bx == 0 && ax * bx + ay * by < 0) return true; }
    return false;
}
// libavoid ConnDir flag -> oracle heading bit (0=+x,1=+y,2=-x,3=-y); y grows downward in libavoid ("Down" = +y)
static int dirmask_start(unsigned f) { int m = 0; if (f & Avoid::ConnDirRight) m |= 1; if (f & Avoid::ConnDirDown) m |= 2; if (f & Avoid::ConnDirLeft) m |= 4; if (f & Avoid::ConnDirUp) m |= 8; return m; }
static int dirmask_end(unsigned f) { int m = 0; if (f & Avoid::ConnDirLeft) m |= 1; if (f & Avoid::ConnDirUp) m |= 2; if (f & Avoid::ConnDirRight) m |= 4; if (f & Avoid::ConnDirDown) m |= 8; return m; }

static void c05_phase(int G, int k, double penCells, bool dirs) {
    vector<Poly> alpha = shape_alphabet(G, false);
    ctx.phase(mcx::fmt("C05 orthogonal G=%d rects=%d segmentPenalty=%g cells dirs=%d%s", G, k, penCells, dirs, g_anglePen > 0 ? mcx::fmt(" anglePenalty=%g", g_anglePen).c_str() : ""));
    for_scenes(alpha, k, 1, true, [&](const vector<Poly> &sc) {
        if (!ctx.next()) return;
        vector<P> fr = free_points(sc, G); vector<R> rs; for (auto &p : sc) rs.push_back(toR(p));
        OrthoGrid og(G, rs);
        ctx.count("states"); ctx.sample(mcx::fmt("pen=%g ", penCells) + scene_str(sc));
        vector<int> hx, hy; for (auto &r : rs) { hx.push_back(r.x0); hx.push_back(r.x1); hy.push_back(r.y0); hy.push_back(r.y1); }
        unsigned dl[5] = {Avoid::ConnDirAll, Avoid::ConnDirUp, Avoid::ConnDirDown, Avoid::ConnDirLeft, Avoid::ConnDirRight};
        for (size_t a = 0; a < fr.size(); a++) for (size_t b = a + 1; b < fr.size(); b++) for (int da = 0; da < (dirs ? 5 : 1); da++) for (int db = 0; db < (dirs ? 5 : 1); db++) {
            if (dirs && da == 0 && db == 0) continue;
            // does the single permitted ray from point q hit a rectangle of the scene?  (input class of KF-C05-1)
            auto faces = [&](P q, unsigned f) { for (auto &r : rs) { if (f == Avoid::ConnDirUp && r.x0 <= q.x && q.x <= r.x1 && r.y1 <= q.y) return true; if (f == Avoid::ConnDirDown && r.x0 <= q.x && q.x <= r.x1 && r.y0 >= q.y) return true;
                if (f == Avoid::ConnDirLeft && r.y0 <= q.y && q.y <= r.y1 && r.x1 <= q.x) return true; if (f == Avoid::ConnDirRight && r.y0 <= q.y && q.y <= r.y1 && r.x0 >= q.x) return true; } return false; };
            ctx.count("transitions"); ctx.count("evaluations");
            try {
            Avoid::Router *r = mk_router(true, penCells * S, 0, sc);
            Avoid::ConnRef *c = mk_conn(r, fr[a], fr[b], dl[da], dl[db]); r->processTransaction();
            bool diag = false, diag2 = false; double cost = ortho_cost(c->route(), penCells, diag); ortho_cost(c->displayRoute(), penCells, diag2);
            // with direction restrictions the continuum has no attained optimum (leave by epsilon, then turn), so the
            // reference is the Hanan grid of the scene: lines through rectangle sides and the two endpoints
            // Hanan lines: rectangle sides, plus through each endpoint only the line(s) along which it may be left/entered
            if (dirs) { og.okX = hx; og.okY = hy; og.noReverse = true;
                if (dl[da] & (Avoid::ConnDirUp | Avoid::ConnDirDown)) og.okX.push_back(fr[a].x); if (dl[da] & (Avoid::ConnDirLeft | Avoid::ConnDirRight)) og.okY.push_back(fr[a].y);
                if (dl[db] & (Avoid::ConnDirUp | Avoid::ConnDirDown)) og.okX.push_back(fr[b].x); if (dl[db] & (Avoid::ConnDirLeft | Avoid::ConnDirRight)) og.okY.push_back(fr[b].y); }
            double o = og.best(fr[a].x, fr[a].y, fr[b].x, fr[b].y, penCells, dirmask_start(dl[da]), dirmask_end(dl[db]), dirs ? 0 : 2);
            if (o > 1e17) ctx.count("no_path_under_direction_restriction");
            string desc = mcx::fmt("segmentPenalty=%g cells dirs=(%u,%u) scene ", penCells, dl[da], dl[db]) + scene_str(sc) + mcx::fmt(" conn (%lld,%lld)->(%lld,%lld)", fr[a].x, fr[a].y, fr[b].x, fr[b].y);
            if (straight_blocked(sc, fr[a], fr[b]) || (fr[a].x != fr[b].x && fr[a].y != fr[b].y)) ctx.count("nontrivial");
            if (diag || diag2) ctx.violation("not_axis_parallel", {}, desc, route_str(c->route()) + " display " + route_str(c->displayRoute()));
            else if (!dirs) { if (o < 1e17 && fabs(cost - o) > 1e-6) ctx.violation(cost > o ? "costlier_than_optimal" : "cheaper_than_possible", {}, desc, mcx::fmt("route cost %.9g optimum %.9g route ", cost, o) + route_str(c->route())); }
            else {
                // direction-restricted free points: libavoid treats the flags as visibility hints, so the sound bracket is
                // unrestricted optimum <= cost <= optimum over restricted Hanan-grid paths (when one exists)
                OrthoGrid og2(G, rs); double lb = og2.best(fr[a].x, fr[a].y, fr[b].x, fr[b].y, penCells, 15, 15, 2);
                if (cost < lb - 1e-6) ctx.violation("cheaper_than_possible", {}, desc, mcx::fmt("route cost %.9g unrestricted optimum %.9g route ", cost, lb) + route_str(c->route()));
                else if (o < 1e17 && cost > o + 1e-6) ctx.violation("costlier_than_optimal", {faces(fr[a], dl[da]) && da && db ? "both_ends_restricted_and_source_faces_a_shape" : fabs(cost - pruned_space_optimum(c, penCells * S) / S) <= 1e-6 ? "direction_restricted_explained_by_documented_turn_pruning" : k >= 2 ? "direction_restricted_two_rectangles_not_optimal_in_pruned_space" : "direction_restricted_point_other"}, desc, mcx::fmt("route cost %.9g restricted Hanan optimum %.9g pruned-search-space optimum %.9g route ", cost, o, pruned_space_optimum(c, penCells * S) / S) + route_str(c->route()));
                if (cost < o - 1e-6) ctx.count("restriction_not_honoured_or_no_restricted_path");
            }
            ctx.cls("cost_minus_length_in_bends", mcx::fmt("%d", (int)lround((cost - (fabs((double)fr[a].x - fr[b].x) + fabs((double)fr[a].y - fr[b].y))) / max(penCells, 1e-9))));
            delete r;
            } catch (vpsc::CriticalFailure &f) { ctx.library_abort(f.what(), mcx::fmt("orthogonal segmentPenalty=%g scene ", penCells) + scene_str(sc) + mcx::fmt(" conn (%lld,%lld)->(%lld,%lld)", fr[a].x, fr[a].y, fr[b].x, fr[b].y)); }
        }
        ctx.done_case();
    });
}

// Configuration histories: ONE router per (scene, endpoint pair); the segment penalty is changed between transactions that contain nothing
// else, and after each the raw route must be the optimum for the penalty now in force.  (The documentation of setRoutingParameter: the new
// value takes effect at the next processTransaction(), which reroutes all connectors.)  seq: the penalties set, in order (cells).
static void c05_reconfig_phase(int G, int k, const vector<double> &seq, bool onlyDependent = false) {
    vector<Poly> alpha = shape_alphabet(G, false);
    string ss; for (double p : seq) ss += mcx::fmt(" %g", p);
    ctx.phase(mcx::fmt("C05 orthogonal G=%d rects=%d one router per connector, segmentPenalty changed between otherwise empty transactions:%s%s", G, k, ss.c_str(), onlyDependent ? "; only the endpoint pairs whose optimal route depends on the penalty (decided by the oracle: the slope of the optimum between the smallest and largest penalty is not a whole number of bends)" : ""));
    for_scenes(alpha, k, 1, true, [&](const vector<Poly> &sc) {
        if (!ctx.next()) return;
        vector<P> fr = free_points(sc, G); vector<R> rs; for (auto &p : sc) rs.push_back(toR(p));
        OrthoGrid og(G, rs); ctx.count("states"); ctx.sample("reconfigured " + scene_str(sc));
        for (size_t a = 0; a < fr.size(); a++) for (size_t b = a + 1; b < fr.size(); b++) {
            string desc = "scene " + scene_str(sc) + mcx::fmt(" conn (%lld,%lld)->(%lld,%lld) segmentPenalty history:", fr[a].x, fr[a].y, fr[b].x, fr[b].y);
            try {
                // does the optimal route really depend on the penalty?  f(p) = min(len + p*bends) is concave and piecewise linear in p; one route is optimal at both
                // the smallest and the largest penalty of the history only if the slope between them is an integer number of bends
                { double lo = *min_element(seq.begin(), seq.end()), hi = *max_element(seq.begin(), seq.end()), fl = og.best(fr[a].x, fr[a].y, fr[b].x, fr[b].y, lo, 15, 15, 2), fh = og.best(fr[a].x, fr[a].y, fr[b].x, fr[b].y, hi, 15, 15, 2);
                  double bb = (fh - fl) / (hi - lo); bool dep = fh < 1e17 && fabs(bb - lround(bb)) > 1e-9; if (dep) ctx.count("nontrivial"); else if (onlyDependent) continue; }
                if (onlyDependent) { set<double> ps(seq.begin(), seq.end()); for (double pp : ps) {   // a fresh router for each penalty first
                    Avoid::Router *r0 = mk_router(true, pp * S, 0, sc); Avoid::ConnRef *c0 = mk_conn(r0, fr[a], fr[b], Avoid::ConnDirAll, Avoid::ConnDirAll); r0->processTransaction(); ctx.count("evaluations");
                    bool dg = false; double c1 = ortho_cost(c0->route(), pp, dg), o1 = og.best(fr[a].x, fr[a].y, fr[b].x, fr[b].y, pp, 15, 15, 2);
                    if (dg || fabs(c1 - o1) > 1e-6) ctx.violation(dg ? "not_axis_parallel" : c1 > o1 ? "costlier_than_optimal" : "cheaper_than_possible", {}, "scene " + scene_str(sc) + mcx::fmt(" conn (%lld,%lld)->(%lld,%lld) fresh router, segmentPenalty=%g cells", fr[a].x, fr[a].y, fr[b].x, fr[b].y, pp), mcx::fmt("route cost %.9g optimum %.9g route ", c1, o1) + route_str(c0->route()));
                    delete r0; } }
                Avoid::Router *r = mk_router(true, seq[0] * S, 0, sc); Avoid::ConnRef *c = mk_conn(r, fr[a], fr[b], Avoid::ConnDirAll, Avoid::ConnDirAll);
                for (size_t q = 0; q < seq.size(); q++) {
                    if (q) r->setRoutingParameter(Avoid::segmentPenalty, seq[q] * S);
                    r->processTransaction(); ctx.count("transitions"); ctx.count("evaluations"); desc += mcx::fmt(" %g", seq[q]);
                    bool diag = false; double cost = ortho_cost(c->route(), seq[q], diag), o = og.best(fr[a].x, fr[a].y, fr[b].x, fr[b].y, seq[q], 15, 15, 2);
                    if (diag) ctx.violation("not_axis_parallel", {}, desc, route_str(c->route()));
                    else if (o < 1e17 && fabs(cost - o) > 1e-6) { ctx.violation(cost > o ? "costlier_than_optimal" : "cheaper_than_possible", {}, desc, mcx::fmt("after the last setting: route cost %.9g optimum %.9g route ", cost, o) + route_str(c->route())); break; }
                }
                delete r;
            } catch (vpsc::CriticalFailure &f) { ctx.library_abort(f.what(), desc); }
        }
        ctx.done_case();
    });
}

// Several connectors in ONE router: the orthogonal visibility graph then contains the endpoints of all of them (an endpoint of one connector is an
// ordinary neighbour on the scan lines of another), although with no crossing/shared-path penalty the optimal cost of each connector is unchanged.
// For every scene and every free point a: one router holding the connectors a -> b for EVERY other free point b; every raw route against the oracle.
static void c05_star_phase(int G, int k, double penCells) {
    vector<Poly> alpha = shape_alphabet(G, false);
    ctx.phase(mcx::fmt("C05 orthogonal G=%d rects=%d segmentPenalty=%g cells, one router per source point holding the connectors to every other free point", G, k, penCells));
    for_scenes(alpha, k, 1, true, [&](const vector<Poly> &sc) {
        if (!ctx.next()) return;
        vector<P> fr = free_points(sc, G); vector<R> rs; for (auto &p : sc) rs.push_back(toR(p));
        OrthoGrid og(G, rs); ctx.count("states"); ctx.sample(mcx::fmt("star pen=%g ", penCells) + scene_str(sc));
        for (size_t a = 0; a < fr.size(); a++) {
            string desc0 = mcx::fmt("segmentPenalty=%g cells scene ", penCells) + scene_str(sc) + mcx::fmt(" one router with connectors from (%lld,%lld) to every other free point; ", fr[a].x, fr[a].y);
            try {
                Avoid::Router *r = mk_router(true, penCells * S, 0, sc); vector<Avoid::ConnRef *> cs; vector<size_t> bs;
                for (size_t b = 0; b < fr.size(); b++) if (b != a) { cs.push_back(mk_conn(r, fr[a], fr[b], Avoid::ConnDirAll, Avoid::ConnDirAll)); bs.push_back(b); }
                r->processTransaction(); ctx.count("transitions");
                for (size_t q = 0; q < cs.size(); q++) { size_t b = bs[q]; ctx.count("evaluations"); bool diag = false; double cost = ortho_cost(cs[q]->route(), penCells, diag), o = og.best(fr[a].x, fr[a].y, fr[b].x, fr[b].y, penCells, 15, 15, 2);
                    if (straight_blocked(sc, fr[a], fr[b]) || (fr[a].x != fr[b].x && fr[a].y != fr[b].y)) ctx.count("nontrivial");
                    string desc = desc0 + mcx::fmt("conn ->(%lld,%lld)", fr[b].x, fr[b].y);
                    if (diag) ctx.violation("not_axis_parallel", {}, desc, route_str(cs[q]->route()));
                    else if (o < 1e17 && fabs(cost - o) > 1e-6) ctx.violation(cost > o ? "costlier_than_optimal" : "cheaper_than_possible", {}, desc, mcx::fmt("route cost %.9g optimum %.9g route ", cost, o) + route_str(cs[q]->route())); }
                delete r;
            } catch (vpsc::CriticalFailure &f) { ctx.library_abort(f.what(), desc0); }
        }
        ctx.done_case();
    });
}

// true minimum number of bends in the free plane between a directed point and a directed target (0-1 BFS, no in-place U-turns)
static int dxd(unsigned d) { return d == 2 ? 1 : d == 8 ? -1 : 0; }
static int dyd(unsigned d) { return d == 4 ? 1 : d == 1 ? -1 : 0; }
static int truemin(int cx, int cy, unsigned cd, int tx, int ty, unsigned td) {
    const int W = 7; unsigned dirs[4] = {1, 2, 4, 8};
    auto idx = [&](int x, int y, int k, int m) { return (((x + W) * (2 * W + 1) + (y + W)) * 4 + k) * 2 + m; };
    vector<int> d((2 * W + 1) * (2 * W + 1) * 8, 1000); deque<int> q;
    int k0 = find(dirs, dirs + 4, cd) - dirs; d[idx(cx, cy, k0, 1)] = 0; q.push_back(idx(cx, cy, k0, 1));
    int best = 1000;
    while (!q.empty()) {
        int s = q.front(); q.pop_front(); int m = s % 2, k = (s / 2) % 4, xy = s / 8, x = xy / (2 * W + 1) - W, y = xy % (2 * W + 1) - W, c = d[s];
        if (x == tx && y == ty && dirs[k] == td) best = min(best, c);
        int nx = x + dxd(dirs[k]), ny = y + dyd(dirs[k]);
        if (nx >= -W && nx <= W && ny >= -W && ny <= W) { int t = idx(nx, ny, k, 1); if (c < d[t]) { d[t] = c; q.push_front(t); } }
        if (m) for (int dk : {1, 3}) { int t = idx(x, y, (k + dk) % 4, 0); if (c + 1 < d[t]) { d[t] = c + 1; q.push_back(t); } }
    }
    return best;
}
static void c05_bends(int range) {
    ctx.phase(mcx::fmt("C05 bends() estimator, relative positions in [-%d,%d]^2 x 4 travel x 4 arrival directions", range, range));
    unsigned dirs[4] = {1, 2, 4, 8};
    for (int x = -range; x <= range; x++) for (int y = -range; y <= range; y++) {
        if (x == 0 && y == 0) continue;
        for (unsigned cd : dirs) for (unsigned td : dirs) {
            if (!ctx.next()) continue;
            ctx.count("states"); ctx.count("transitions"); ctx.count("nontrivial"); ctx.count("evaluations");
            for (int sc : {1, 10}) {
                int b = Avoid::bends(Avoid::Point(x * sc, y * sc), cd, Avoid::Point(0, 0), td), t = truemin(x, y, cd, 0, 0, td);
                ctx.cls("bend_estimate", mcx::fmt("%d", b));
                if (b > t) ctx.violation("estimate_exceeds_true_minimum", {}, mcx::fmt("bends(curr=(%d,%d) dir=%u, dest=(0,0) dir=%u) scale %d", x, y, cd, td, sc), mcx::fmt("estimate %d true minimum %d", b, t));
                if (b < t) ctx.count("estimate_below_true");
            }
            ctx.sample(mcx::fmt("bends(curr=(%d,%d),%u,(0,0),%u)", x, y, cd, td), 1);
            ctx.done_case();
        }
    }
}

int main(int argc, char **argv) {
    ctx.init(argc, argv);
    PROP = ctx.opt["prop"];
    bool T = ctx.thorough();
    if (PROP == "C03") {
        c03_phase(3, 1, false, 0, false); c03_phase(3, 1, true, 0, false);
        c03_phase(3, 2, false, 0, false); c03_phase(3, 2, true, 0, false);
        c03_phase(3, 1, false, 2, false); c03_phase(3, 2, false, 2, false); c03_phase(3, 2, true, 2, false);
        c03_phase(3, 2, false, 2, true); c03_phase(3, 2, true, 2, true);
        // buffer = exactly one cell: every free grid point next to a shape lies exactly ON the border of that shape's buffer zone (the scan's <= / < decisions)
        c03_phase(3, 1, true, 10, false); c03_phase(3, 1, false, 10, false); c03_phase(4, 1, true, 10, false); c03_phase(3, 2, true, 10, false); c03_phase(3, 2, true, 10, true); c03_phase(3, 2, false, 10, true);
        c03_orders_phase(3, 2, 1); c03_orders_phase(3, 3, 3);
        for (int os = 0; os < 4; os++) for (int ortho = 0; ortho < 2; ortho++) { c03_attached_phase(3, 2, ortho, 0, os); if (os == 0 || T) c03_attached_phase(3, 3, ortho, 0, os); }
        c03_attached_phase(3, 2, false, 2, 0); c03_attached_phase(3, 2, true, 2, 0); c03_attached_phase(3, 2, true, 2, 1);
        for (int no = 0; no < 5; no++) c03_pinpair_phase(4, no, 0);
        c03_pinpair_phase(4, 2, 4);
        c03_cbend_phase(4, 1); c03_cbend_phase(5, 1); c03_cbend_phase(4, 2);
        for (int ortho = 0; ortho < 2; ortho++) { c03_checkpoint_phase(3, 1, ortho); c03_checkpoint_phase(4, 1, ortho); c03_checkpoint_phase(3, 2, ortho); }
        if (T) { c03_cbend_phase(6, 1); c03_cbend_phase(5, 2); for (int no = 1; no < 4; no++) c03_pinpair_phase(5, no, 0); }
        if (T) { c03_orders_phase(3, 3, 1); c03_orders_phase(4, 2, 1); c03_phase(4, 2, true, 0, false); c03_phase(4, 2, false, 0, false); c03_phase(3, 3, true, 0, false); c03_phase(3, 3, false, 0, false); c03_phase(4, 2, true, 2, false); }
    } else if (PROP == "C04") {
        for (double pen : {0.0, 0.5, 3.0}) { c04_phase(4, 1, pen, true); c04_phase(T ? 4 : 3, 2, pen, true); c04_phase(4, 2, pen, false); }
        c04_neartie_phase(3, 1, true); c04_neartie_phase(4, 1, false); c04_neartie_phase(3, 2, false); if (T) { c04_neartie_phase(4, 1, true); c04_neartie_phase(3, 2, true); c04_neartie_phase(4, 2, false); }
        if (T) { c04_phase(5, 1, 0, true); c04_phase(5, 2, 0, false); c04_phase(5, 2, 0.5, false); c04_phase(3, 3, 0, true); c04_phase(4, 3, 0, false); c04_phase(4, 3, 3, false); }
    } else if (PROP == "C05") {
        c05_bends(T ? 4 : 2);
        for (double pen : {0.5, 1.0, 2.0, 3.0, 10.0}) { c05_phase(4, 1, pen, false); c05_phase(4, 2, pen, false); }   // 1 and 3 cells: exact ties between "one more bend" and "k more cells"
        // penalties BELOW one library unit (0.5 and 0.25): rival routes of equal length differ in cost by less than 1, the scale at which an integer-truncated comparison goes wrong
        for (double pen : {0.05, 0.025}) { c05_phase(4, 1, pen, false); c05_phase(4, 2, pen, false); } c05_phase(4, 1, 0.05, true);
        // anglePenalty set (it prices polyline bends by their angle): the orthogonal optimum is length + segmentPenalty * bends all the same
        for (double ap : {40.0, 400.0}) { g_anglePen = ap; c05_phase(4, 1, 2, false); c05_phase(4, 2, 2, false); c05_phase(4, 2, 0.5, false); } g_anglePen = 0;
        c05_phase(3, 1, 2, true); c05_phase(4, 1, 2, true); c05_phase(4, 2, 2, true); c05_phase(4, 3, 2, false); c05_phase(4, 3, 1, false);
        c05_star_phase(4, 1, 2); c05_star_phase(4, 2, 2); c05_star_phase(4, 2, 0.5); c05_star_phase(3, 3, 1);
        c05_reconfig_phase(4, 1, {0.5, 1, 0.5, 3, 0.5, 10, 1, 3, 1, 10, 3, 10, 0.5}); c05_reconfig_phase(4, 2, {1, 10, 0.5}); c05_reconfig_phase(5, 2, {0.5, 1, 0.5, 3, 0.5, 10, 1, 3, 1, 10, 3, 10, 0.5}, true);
        if (T) { c05_star_phase(5, 2, 2); c05_star_phase(4, 3, 2); c05_star_phase(5, 1, 0.5);
                 c05_reconfig_phase(4, 3, {1, 10, 0.5}); c05_reconfig_phase(5, 2, {1, 10, 0.5}); c05_reconfig_phase(6, 2, {0.5, 1, 0.5, 3, 0.5, 10, 1, 3, 1, 10, 3, 10, 0.5}, true);
                 for (double pen : {0.5, 1.0, 2.0, 10.0}) c05_phase(5, 2, pen, false); c05_phase(5, 3, 2, false); c05_phase(4, 2, 0.5, true); }
    } else { fprintf(stderr, "need --prop C03|C04|C05\n"); return 3; }
    return ctx.finish();
}
