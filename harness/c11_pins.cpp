// C11: connection pins, junction ends and checkpoints.
#include "libavoid/libavoid.h"
#include <cmath>
#include <set>
#include <vector>
#include "mcx/mcx.h"
#include "mcx/arena.h"
using namespace Avoid; using namespace std;
static mcx::Ctx ctx;
static const int S = 20;
struct PinDef { double px, py, ax, ay; ConnDirFlags side; const char *name; double din = 0; };   // din: added to the configuration's inside offset (two pins may differ in nothing else)   // proportional and absolute (for the 20x20 shape) offsets
static const PinDef DEFS[7] = {{ATTACH_POS_LEFT, ATTACH_POS_CENTRE, ATTACH_POS_MIN_OFFSET, 10, ConnDirLeft, "L"}, {ATTACH_POS_RIGHT, ATTACH_POS_CENTRE, ATTACH_POS_MAX_OFFSET, 10, ConnDirRight, "R"},
                               {ATTACH_POS_CENTRE, ATTACH_POS_TOP, 10, ATTACH_POS_MIN_OFFSET, ConnDirUp, "T"}, {ATTACH_POS_CENTRE, ATTACH_POS_BOTTOM, 10, ATTACH_POS_MAX_OFFSET, ConnDirDown, "B"},
                               {ATTACH_POS_RIGHT, 0.25, ATTACH_POS_MAX_OFFSET, 5, ConnDirRight, "R1"}, {ATTACH_POS_RIGHT, 0.75, ATTACH_POS_MAX_OFFSET, 15, ConnDirRight, "R2"},
                               {ATTACH_POS_LEFT, ATTACH_POS_CENTRE, ATTACH_POS_MIN_OFFSET, 10, ConnDirLeft, "L+7", 7}};   // the same place and directions as L, 7 further inside
struct Cfg { bool ortho; double inside; bool proportional; int dirMode; int excl; int mv; int cps; bool toJunction; int heap; bool early = false; int extra = 0; bool costs = false; int cpDirs = 0; bool flip = false; /* flip: the FIRST connector runs target -> pin (the router routes connectors in reverse creation order, so with flip the connector that ENDS on the pin is routed after the one that starts there) */ };   // cpDirs: 1 checkpoints may only be ARRIVED AT from the left (ConnDirLeft), 2 only be LEFT towards smaller y (libavoid's VertInf::directionFrom calls that ConnDirDown), 3 both   // extra: pins of ANOTHER class on the same shape (1: a ConnDirAll centre pin, 2: directional pins at the middle of all four sides)   // early: the move/resize (and a junction move) is issued BEFORE the first processTransaction   // dirMode 0 automatic(ConnDirNone) 1 explicit side 2 All; excl 0 default 1 forced exclusive 2 forced shared
static string cfg_str(const Cfg &c) { return mcx::fmt("%s insideOffset=%g %s dirs=%s exclusive=%s then=%s checkpoints=%d far_end=%s heap=%d", c.ortho ? "orthogonal" : "polyline", c.inside, c.proportional ? "proportional" : "absolute", c.dirMode == 0 ? "automatic" : c.dirMode == 1 ? "side" : "all", c.excl == 0 ? "default" : c.excl == 1 ? "forced" : "shared", c.mv == 0 ? "nothing" : c.mv == 1 ? "translate" : c.mv == 2 ? "resize" : c.mv == 3 ? "move-junctions" : c.mv == 4 ? "move-junctions+translate" : c.mv == 5 ? "reattach-to-second-shape+translate-first" : "reattach-to-second-shape+resize-first", c.cps, c.toJunction ? "junction" : "point", c.heap) + (c.early ? " move-before-first-transaction" : "") + (c.extra == 1 ? " +centre pin of another class" : c.extra == 2 ? " +four side pins of another class" : "") + (c.costs ? " +connection costs (50 on every other pin)" : "") + (c.cpDirs ? mcx::fmt(" checkpoint directions#%d", c.cpDirs) : string()) + (c.flip ? " first connector runs target->pin" : ""); }

static bool onSeg(Point a, Point b, Point p) { return fabs((b.x - a.x) * (p.y - a.y) - (p.x - a.x) * (b.y - a.y)) < 1e-6 && p.x >= min(a.x, b.x) - 1e-6 && p.x <= max(a.x, b.x) + 1e-6 && p.y >= min(a.y, b.y) - 1e-6 && p.y <= max(a.y, b.y) + 1e-6; }

static void run(unsigned pm, int k, const vector<pair<int, int>> &targets, const Cfg &c) {
    string desc = "pins {"; for (int i = 0; i < 7; i++) if (pm >> i & 1) desc += DEFS[i].name + string(" "); desc += mcx::fmt("} %d connector(s) to", k); for (int i = 0; i < k; i++) desc += mcx::fmt(" (%d,%d)", targets[i].first, targets[i].second); desc += " " + cfg_str(c);
    ctx.announce(desc); ctx.count("evaluations");
    vector<string> kc; if (c.inside == 0 && c.dirMode != 2) kc.push_back("pin_on_boundary");
    if (c.cps && c.toJunction) kc.push_back("checkpoints_on_junction_connector");
    if (c.cpDirs == 2) kc.push_back("checkpoint_with_restricted_departure_and_free_arrival");   // the leg INTO the checkpoint is routed without regard to how it may be left
    if (c.extra == 2 && (pm & 15) && c.ortho) kc.push_back("coincident_pins_of_two_classes_orthogonal");   // a pin of the connector's class shares its position with a pin of another class
    char whyBuf[100] = "", obsBuf[300] = ""; bool aborted = false; char abortWhat[600] = ""; int nTrans = 0; bool nontriv = false;
    if (c.heap) mcx::heap_begin(c.heap, mcx::REUSE_NONE, 0);
    {
    string why, obs;
    try {
        Router *r = new Router(c.ortho ? OrthogonalRouting : PolyLineRouting); r->setRoutingParameter(segmentPenalty, c.ortho ? 30 : 0);
        Rectangle rect(Point(1.5 * S, 1.5 * S), Point(2.5 * S, 2.5 * S)); ShapeRef *sh = new ShapeRef(r, rect);
        vector<ShapeConnectionPin *> pins; int npins = 0;
        for (int i = 0; i < 7; i++) if (pm >> i & 1) { ConnDirFlags d = c.dirMode == 0 ? (ConnDirFlags)ConnDirNone : c.dirMode == 1 ? DEFS[i].side : (ConnDirFlags)ConnDirAll;
            ShapeConnectionPin *p = c.proportional ? new ShapeConnectionPin(sh, 1, DEFS[i].px, DEFS[i].py, true, c.inside + DEFS[i].din, d) : new ShapeConnectionPin(sh, 1, DEFS[i].ax, DEFS[i].ay, false, c.inside + DEFS[i].din, d);
            if (c.excl == 1) p->setExclusive(true); else if (c.excl == 2) p->setExclusive(false);
            if (c.dirMode == 0 && p->directions() != DEFS[i].side && why.empty()) { why = "automatic pin directions are not out of the side the pin is on"; obs = mcx::fmt("pin %s directions %u", DEFS[i].name, (unsigned)p->directions()); }   // documented default for visDirs
            if (c.costs && (npins % 2 == 0)) p->setConnectionCost(50);
            pins.push_back(p); npins++; }
        if (c.extra == 1) new ShapeConnectionPin(sh, 2, ATTACH_POS_CENTRE, ATTACH_POS_CENTRE, true, 0.0, ConnDirAll);
        if (c.extra == 2) for (int i = 0; i < 4; i++) new ShapeConnectionPin(sh, 2, DEFS[i].px, DEFS[i].py, true, c.inside, DEFS[i].side);
        // a second shape with the same pin set (follow-ups 5/6: the connectors' pin ends are re-attached to IT in the transaction that also moves / resizes the first shape)
        ShapeRef *sh2 = nullptr; vector<ShapeConnectionPin *> pins2;
        if (c.mv >= 5) { Rectangle rect2(Point(5.5 * S, 1.5 * S), Point(6.5 * S, 2.5 * S)); sh2 = new ShapeRef(r, rect2);
            for (int i = 0; i < 7; i++) if (pm >> i & 1) { ConnDirFlags d = c.dirMode == 0 ? (ConnDirFlags)ConnDirNone : c.dirMode == 1 ? DEFS[i].side : (ConnDirFlags)ConnDirAll;
                ShapeConnectionPin *p = c.proportional ? new ShapeConnectionPin(sh2, 1, DEFS[i].px, DEFS[i].py, true, c.inside + DEFS[i].din, d) : new ShapeConnectionPin(sh2, 1, DEFS[i].ax, DEFS[i].ay, false, c.inside + DEFS[i].din, d);
                if (c.excl == 1) p->setExclusive(true); else if (c.excl == 2) p->setExclusive(false); pins2.push_back(p); } }
        bool allExclusive = true; for (auto p : pins) if (!p->isExclusive()) allExclusive = false;
        vector<ConnRef *> cs; vector<JunctionRef *> js; vector<vector<Point>> cpl(k);
        for (int i = 0; i < k; i++) {
            Point tp(targets[i].first * S, targets[i].second * S); ConnRef *cn;
            if (c.toJunction) { JunctionRef *j = new JunctionRef(r, tp); js.push_back(j); cn = ((i % 2 == 0) != c.flip) ? new ConnRef(r, ConnEnd(sh, 1), ConnEnd(j)) : new ConnRef(r, ConnEnd(j), ConnEnd(sh, 1)); }
            else { js.push_back(nullptr); cn = ((i % 2 == 0) != c.flip) ? new ConnRef(r, ConnEnd(sh, 1), ConnEnd(tp)) : new ConnRef(r, ConnEnd(tp), ConnEnd(sh, 1)); }
            if (c.cps && (i == 0 || (c.cpDirs && c.cpDirs != 4))) { vector<Checkpoint> v; cpl[i].push_back(c.cpDirs == 4 ? Point(3 * S, 4.5 * S) : Point(4.5 * S, 4.5 * S)); if (c.cps > 1) cpl[i].push_back(Point(-0.5 * S, 4.5 * S)); if ((i % 2 == 1) != c.flip) reverse(cpl[i].begin(), cpl[i].end()); for (auto &p : cpl[i]) v.push_back(c.cpDirs == 4 ? Checkpoint(p, (ConnDirFlags)ConnDirLeft, (ConnDirFlags)ConnDirRight) : c.cpDirs ? Checkpoint(p, (c.cpDirs & 1) ? (ConnDirFlags)ConnDirLeft : (ConnDirFlags)ConnDirAll, (c.cpDirs & 2) ? (ConnDirFlags)ConnDirDown : (ConnDirFlags)ConnDirAll) : Checkpoint(p)); cn->setRoutingCheckpoints(v); }
            cs.push_back(cn);
        }
        if (!c.early) { r->processTransaction(); nTrans++; }
        else for (auto j : js) if (j) r->moveJunction(j, 5, 0);   // junctions are moved in the same (first) transaction too
        if (c.mv == 1) { r->moveShape(sh, 0.25 * S, 0); r->processTransaction(); nTrans++; }
        else if (c.mv == 2) { Rectangle nr(Point(1.25 * S, 1.5 * S), Point(2.75 * S, 2.25 * S)); r->moveShape(sh, nr); r->processTransaction(); nTrans++; }
        else if (c.mv == 3 || c.mv == 4) { int q = 0; for (auto j : js) if (j) { if (q++ % 2 == 0) r->moveJunction(j, 0.5 * S, 0); else r->moveJunction(j, Point(j->position().x, j->position().y - 0.25 * S)); } if (c.mv == 4) r->moveShape(sh, 0.25 * S, 0); r->processTransaction(); nTrans++; }   // junctions moved in a LATER transaction (4: together with the shape)
        else if (c.mv == 5 || c.mv == 6) { for (size_t ci = 0; ci < cs.size(); ci++) { if ((ci % 2 == 0) != c.flip) cs[ci]->setSourceEndpoint(ConnEnd(sh2, 1)); else cs[ci]->setDestEndpoint(ConnEnd(sh2, 1)); }
            if (c.mv == 5) r->moveShape(sh, 0.25 * S, 0); else { Rectangle nr(Point(1.25 * S, 1.5 * S), Point(2.75 * S, 2.25 * S)); r->moveShape(sh, nr); }
            r->processTransaction(); nTrans++; pins = pins2; }
        else if (c.early) { r->processTransaction(); nTrans++; }
        if (k <= npins || !allExclusive) {
            nontriv = npins > 1;
            multiset<pair<double, double>> used;
            for (size_t ci = 0; ci < cs.size(); ci++) {
                const PolyLine &d = cs[ci]->displayRoute(); bool pinFirst = ((ci % 2 == 0) != c.flip);
                string rs; for (size_t q = 0; q < d.size(); q++) rs += mcx::fmt("(%g,%g)", d.ps[q].x, d.ps[q].y);
                if (d.size() < 2) { if (why.empty()) { why = "route too short"; obs = rs; } continue; }
                Point e = pinFirst ? d.ps[0] : d.ps[d.size() - 1], nxt = pinFirst ? d.ps[1] : d.ps[d.size() - 2], far = pinFirst ? d.ps[d.size() - 1] : d.ps[0];
                ShapeConnectionPin *hit = nullptr; for (auto p : pins) { Point pp = p->position(); if (fabs(pp.x - e.x) < 1e-9 && fabs(pp.y - e.y) < 1e-9) hit = p; }
                if (!hit) { if (why.empty()) { why = "end not at a pin of the class"; obs = mcx::fmt("conn %zu end (%g,%g) pins:", ci, e.x, e.y); for (auto p : pins) obs += mcx::fmt(" (%g,%g)", p->position().x, p->position().y); } }
                else {
                    if (c.ortho) { ConnDirFlags dd = hit->directions(); bool okd = false;
                        if ((dd & ConnDirLeft) && nxt.x < e.x && nxt.y == e.y) okd = true; if ((dd & ConnDirRight) && nxt.x > e.x && nxt.y == e.y) okd = true; if ((dd & ConnDirUp) && nxt.y < e.y && nxt.x == e.x) okd = true; if ((dd & ConnDirDown) && nxt.y > e.y && nxt.x == e.x) okd = true;
                        if (!okd && why.empty()) { why = "leaves pin in a forbidden direction"; obs = mcx::fmt("conn %zu dirs=%u route ", ci, (unsigned)dd) + rs; } }
                    if (hit->isExclusive()) used.insert({e.x, e.y});
                }
                Point want(targets[ci].first * S, targets[ci].second * S), want2 = want;
                if (js[ci]) { want = js[ci]->position(); want2 = js[ci]->recommendedPosition(); }   // hyperedge improvement "moves" junctions by recommending a position
                if ((fabs(far.x - want.x) > 1e-9 || fabs(far.y - want.y) > 1e-9) && (fabs(far.x - want2.x) > 1e-9 || fabs(far.y - want2.y) > 1e-9) && why.empty()) { why = c.toJunction ? "junction end not at the junction position" : "free end moved"; obs = rs; }
                // checkpoints in order
                if (!cpl[ci].empty()) { size_t seg = 1; double tpos = 0; bool ok = true;
                    for (auto &cp : cpl[ci]) { bool found = false; for (size_t q = seg; q < d.size() && !found; q++) if (onSeg(d.ps[q - 1], d.ps[q], cp)) { double L = hypot(d.ps[q].x - d.ps[q - 1].x, d.ps[q].y - d.ps[q - 1].y), t = L > 0 ? hypot(cp.x - d.ps[q - 1].x, cp.y - d.ps[q - 1].y) / L : 0; if (q > seg || t >= tpos - 1e-9) { found = true; seg = q; tpos = t; } } if (!found) ok = false; }
                    if (!ok && why.empty()) { why = "checkpoints not visited in order"; obs = rs; } }
            }
            for (auto &u : used) if (used.count(u) > 1 && why.empty()) { why = "exclusive pin used twice"; obs = mcx::fmt("pin at (%g,%g)", u.first, u.second); }
        }
        delete r;
    } catch (vpsc::CriticalFailure &f) { aborted = true; snprintf(abortWhat, sizeof abortWhat, "%s", f.what().c_str()); why.clear(); }
    snprintf(whyBuf, sizeof whyBuf, "%s", why.c_str()); snprintf(obsBuf, sizeof obsBuf, "%s", obs.c_str());
    }
    if (c.heap) mcx::heap_end();
    ctx.count("transitions", nTrans); ctx.count("states", nTrans); if (nontriv) ctx.count("nontrivial");
    if (aborted) ctx.library_abort(abortWhat, desc);
    if (whyBuf[0]) ctx.violation(whyBuf, kc, desc, obsBuf);
}
static void phase(const Cfg &c, const vector<unsigned> &pinsets, int maxk, int tstep) {
    vector<pair<int, int>> T; for (int x = 0; x <= 4; x++) for (int y = 0; y <= 4; y++) if (!(x >= 1 && x <= 3 && y >= 1 && y <= 3)) T.push_back({x, y});
    ctx.phase(cfg_str(c) + mcx::fmt(" x %zu pin sets x up to %d connectors x targets", pinsets.size(), maxk));
    for (unsigned pm : pinsets) for (int k = 1; k <= maxk; k++) for (size_t t1 = 0; t1 < T.size(); t1 += tstep) for (size_t t2 = (k == 2 ? 0 : T.size() - 1); t2 < T.size(); t2 += (k == 2 ? 3 : 1)) {
        if (k == 2 && t2 == t1) continue; if (ctx.stopped()) return;
        if (c.cpDirs == 4 && T[t1].first != 4) continue;   // the straight-through checkpoint (first connector only, which runs pin -> target) must be left to the right: only targets in the column right of it give the ray a line to turn on
        if (!ctx.next()) continue; ctx.sample(mcx::fmt("pinmask %u k=%d targets #%zu #%zu", pm, k, t1, t2), 1);
        run(pm, k, {T[t1], T[t2]}, c); ctx.done_case(); }
}

// ShapeRef::transformConnectionPinPositions: "adjusts all of the shape's connection pin positions and visibility directions for a given transformation
// type" (the caller has rotated / flipped the shape).  On a square shape the polygon is its own image, so: the pin's position after the call is the
// geometric image of its position before (about the shape centre; y grows downward, so clockwise takes Right to Down), its visibility directions are the
// images of its directions, the five transformations compose like the symmetries they name, and a connector routed afterwards ends on the moved pin.
static Point timg(int t, Point p, Point c) { double x = p.x - c.x, y = p.y - c.y, nx = x, ny = y; switch (t) { case 0: nx = -y; ny = x; break; case 1: nx = -x; ny = -y; break; case 2: nx = y; ny = -x; break; case 3: nx = -x; break; case 4: ny = -y; break; } return Point(c.x + nx, c.y + ny); }
static unsigned dimg(int t, unsigned d) { if (d == ConnDirNone || d == ConnDirAll) return d; unsigned r = 0; static const ConnDirFlags ring[4] = {ConnDirUp, ConnDirRight, ConnDirDown, ConnDirLeft};
    for (int k = 0; k < 4; k++) if (d & ring[k]) { int j = k; if (t <= 2) j = (k + t + 1) % 4; else if (t == 3) j = (k % 2 == 1) ? (k + 2) % 4 : k; else j = (k % 2 == 0) ? (k + 2) % 4 : k; r |= ring[j]; } return r; }
static void transform_phase() {
    static const ShapeTransformationType TT[5] = {TransformationType_CW90, TransformationType_CW180, TransformationType_CW270, TransformationType_FlipX, TransformationType_FlipY};
    static const char *TN[5] = {"CW90", "CW180", "CW270", "FlipX", "FlipY"};
    ctx.phase("transformConnectionPinPositions on a square shape: 6 pin definitions x proportional/absolute x inside offset {0,3} x direction mode x every word of up to 2 transformations; position, directions, group laws, then a routed connector");
    for (int i = 0; i < 6; i++) for (int prop = 0; prop < 2; prop++) for (double inside : {0.0, 3.0}) for (int dm = 0; dm < 3; dm++) for (int t1 = 0; t1 < 5; t1++) for (int t2 = -1; t2 < 5; t2++) for (int ortho = 0; ortho < 2; ortho++) {
        if (!ctx.next()) continue; ctx.count("states"); ctx.count("evaluations"); ctx.count("nontrivial"); ctx.count("transitions", t2 >= 0 ? 3 : 2);
        string desc = mcx::fmt("pin %s %s insideOffset=%g dirs=%s transform %s%s%s then a %s connector", DEFS[i].name, prop ? "proportional" : "absolute", inside, dm == 0 ? "automatic" : dm == 1 ? "side" : "all", TN[t1], t2 >= 0 ? " then " : "", t2 >= 0 ? TN[t2] : "", ortho ? "orthogonal" : "polyline");
        ctx.sample(desc, 1); ctx.announce(desc);
        try {
            Router *r = new Router(ortho ? OrthogonalRouting : PolyLineRouting); Rectangle rect(Point(1.5 * S, 1.5 * S), Point(2.5 * S, 2.5 * S)); ShapeRef *sh = new ShapeRef(r, rect); Point ctr(2 * S, 2 * S);
            ConnDirFlags d = dm == 0 ? (ConnDirFlags)ConnDirNone : dm == 1 ? DEFS[i].side : (ConnDirFlags)ConnDirAll;
            ShapeConnectionPin *p = prop ? new ShapeConnectionPin(sh, 1, DEFS[i].px, DEFS[i].py, true, inside, d) : new ShapeConnectionPin(sh, 1, DEFS[i].ax, DEFS[i].ay, false, inside, d);
            Point want = p->position(); unsigned wantd = p->directions();
            sh->transformConnectionPinPositions(TT[t1]); want = timg(t1, want, ctr); wantd = dimg(t1, wantd);
            if (t2 >= 0) { sh->transformConnectionPinPositions(TT[t2]); want = timg(t2, want, ctr); wantd = dimg(t2, wantd); }
            Point got = p->position(); unsigned gotd = p->directions();
            if (fabs(got.x - want.x) > 1e-9 || fabs(got.y - want.y) > 1e-9) ctx.violation("transformed pin position is not the image of the pin position", {}, desc, mcx::fmt("pin at (%g,%g), image of the original position is (%g,%g)", got.x, got.y, want.x, want.y));
            else if (gotd != wantd) ctx.violation("transformed pin directions are not the images of the pin directions", {}, desc, mcx::fmt("directions %u, expected %u", gotd, wantd));
            else { ConnRef *cn = new ConnRef(r, ConnEnd(sh, 1), ConnEnd(Point(4.5 * S, 0.5 * S))); r->processTransaction(); const PolyLine &dr = cn->displayRoute();
                if (dr.size() < 2 || fabs(dr.ps[0].x - want.x) > 1e-9 || fabs(dr.ps[0].y - want.y) > 1e-9) ctx.violation("end not at a pin of the class", inside == 0 && dm != 2 ? vector<string>{"pin_on_boundary"} : vector<string>{}, desc, mcx::fmt("route starts at (%g,%g), pin at (%g,%g)", dr.size() ? dr.ps[0].x : 0.0, dr.size() ? dr.ps[0].y : 0.0, want.x, want.y)); }
            delete r;
        } catch (vpsc::CriticalFailure &f) { ctx.library_abort(f.what(), desc); }
        ctx.done_case();
    }
}
int main(int argc, char **argv) {
    ctx.init(argc, argv);
    bool TH = ctx.thorough();
    run(15, 2, {{0, 0}, {4, 4}}, {true, 3, true, 1, 0, 1, 0, false, 0});   // warm-up in system-malloc mode
    vector<unsigned> all; for (unsigned pm = 1; pm < 16; pm++) all.push_back(pm); all.push_back(48); all.push_back(48 + 1);
    vector<unsigned> few = {1, 3, 5, 10, 15, 48, 65, 67};   // 65, 67: with a second pin that differs from L only in its inside offset
    transform_phase();
    for (int ortho = 0; ortho < 2; ortho++) for (int heap = 1; heap <= 2; heap++) {
        for (int mv = 0; mv < 3; mv++) phase({(bool)ortho, 3, true, 1, 0, mv, 0, false, heap}, all, 2, 1);
        phase({(bool)ortho, 3, false, 1, 0, 2, 0, false, heap}, few, 2, 2);
        phase({(bool)ortho, 3, false, 0, 0, 1, 0, false, heap}, few, 2, 2);   // absolute offsets with automatic directions
        phase({(bool)ortho, 3, true, 0, 0, 1, 0, false, heap}, few, 2, 2);
        phase({(bool)ortho, 3, true, 2, 1, 1, 0, false, heap}, few, 2, 2);
        phase({(bool)ortho, 3, true, 1, 2, 0, 0, false, heap}, few, 2, 2);
        // ONE shared pin that is not level with the shape's centre (R1 or R2 alone; with L as a second, central pin), two connectors, one of which ends on it: the second user of a shared pin
        for (int mv = 0; mv < 3; mv++) for (int tj = 0; tj < 2; tj++) for (int fl = 0; fl < 2; fl++) { Cfg e{(bool)ortho, 3, true, 1, 2, mv, 0, (bool)tj, heap}; e.flip = fl; phase(e, {16u, 32u, 17u}, 2, 1); }
        { Cfg e{(bool)ortho, 3, true, 1, 0, 1, 0, false, heap}; e.flip = true; phase(e, few, 2, 2); Cfg f{(bool)ortho, 3, true, 1, 2, 0, 0, false, heap}; f.flip = true; phase(f, few, 2, 2); }
        phase({(bool)ortho, 3, true, 1, 0, 1, 0, true, heap}, few, 2, 2);
        for (int mv = 3; mv <= 4; mv++) phase({(bool)ortho, 3, true, 1, 0, mv, 0, true, heap}, few, 2, 2);
        for (int mv = 5; mv <= 6; mv++) for (int tj = 0; tj < 2; tj++) phase({(bool)ortho, 3, true, 1, 0, mv, 0, (bool)tj, heap}, few, 2, 2);
        phase({(bool)ortho, 3, true, 1, 0, 1, 1, false, heap}, few, 1, 1);
        phase({(bool)ortho, 3, true, 1, 0, 0, 2, false, heap}, few, 1, 2);
        phase({(bool)ortho, 0, true, 1, 0, 0, 0, false, heap}, few, 2, 2);   // pins exactly on the boundary: known-finding class
        for (int ex = 1; ex <= 2; ex++) for (int mv = 0; mv < 2; mv++) { Cfg e{(bool)ortho, 3, true, 1, 0, mv, 0, false, heap}; e.extra = ex; phase(e, ex == 1 ? all : few, 2, ex == 1 ? 1 : 2); }
        for (int mv = 0; mv < 3; mv++) { Cfg e{(bool)ortho, 3, true, 1, 0, mv, 0, false, heap}; e.costs = true; phase(e, few, 2, 2); }
        // (orthogonal only: in polyline mode a direction-restricted checkpoint is legitimately unreachable -- and then skipped, as documented -- when no vertex lies in the permitted quadrants)
        // one checkpoint only: at (90,90) every pin lies to its left and every target above it, so both restrictions can be met; a second restricted
        // checkpoint at the far left has nothing to its left to arrive from
        if (ortho) for (int cd = 1; cd <= 3; cd++) for (int ncp = 1; ncp <= 1; ncp++) for (int tj = 0; tj < 2; tj++) { Cfg e{(bool)ortho, 3, true, 1, 0, 0, ncp, (bool)tj, heap}; e.cpDirs = cd; phase(e, few, 2, tj ? 3 : 2); }
        // a checkpoint the route has to pass STRAIGHT THROUGH (arrive from the left, leave to the right), placed nearer to the shape than to the targets' column: the segment before it
        // is a middle segment that nudging centres in its channel, and the checkpoint is one of the channel's limits
        if (ortho) for (int mv = 0; mv < 3; mv++) for (int tj = 0; tj < 2; tj++) { Cfg e{(bool)ortho, 3, true, 1, 0, mv, 1, (bool)tj, heap}; e.cpDirs = 4; phase(e, few, 2, tj ? 3 : 2); }
        for (int mv = 1; mv < 3; mv++) { Cfg e{(bool)ortho, 3, true, 1, 0, mv, 0, false, heap}; e.early = true; phase(e, few, 2, 2); Cfg ej{(bool)ortho, 3, true, 1, 0, mv, 0, true, heap}; ej.early = true; phase(ej, few, 2, 3); }
    }
    // the full cross product (quick: follow-ups nothing/translate/resize; thorough: all seven follow-ups)
    for (int ortho = 0; ortho < 2; ortho++) for (int heap = 1; heap <= 2; heap++) for (int prop = 0; prop < 2; prop++) for (int dm = 0; dm < 3; dm++) for (int ex = 0; ex < 3; ex++) for (int mv = 0; mv < (TH ? 7 : 3); mv++) for (int tj = 0; tj < 2; tj++) {
        if ((mv == 3 || mv == 4) && !tj) continue;   // junction moves need junction ends
        phase({(bool)ortho, 3, (bool)prop, dm, ex, mv, 0, (bool)tj, heap}, all, 2, 2); if (prop && dm == 1 && ex == 0) phase({(bool)ortho, 3, true, 1, 0, mv, 2, (bool)tj, heap}, few, 2, 2); }
    return ctx.finish();
}
