// C16: libavoid geometry predicates against exact integer/rational arithmetic, exhaustively over all point
// tuples of a small grid, re-run under exactly representable scalings, odd multipliers, mirrors and translations.
#include "libavoid/libavoid.h"
#include "libavoid/geometry.h"
#include "libvpsc/linesegment.h"
#include <cstdio>
#include <cmath>
#include <algorithm>
#include <vector>
#include "mcx/mcx.h"
using namespace Avoid;
typedef long long ll;
struct P { ll x, y; };
static mcx::Ctx ctx;
static ll cr(P a, P b, P c) { return (b.x - a.x) * (c.y - a.y) - (c.x - a.x) * (b.y - a.y); }
static int sg(ll v) { return v > 0 ? 1 : v < 0 ? -1 : 0; }
static bool eq(P a, P b) { return a.x == b.x && a.y == b.y; }
static bool onOpen(P a, P b, P c) { if (cr(a, b, c) != 0 || eq(a, b)) return false; ll d = (c.x - a.x) * (b.x - a.x) + (c.y - a.y) * (b.y - a.y), L = (b.x - a.x) * (b.x - a.x) + (b.y - a.y) * (b.y - a.y); return d > 0 && d < L; }
static bool onClosed(P a, P b, P c) { if (cr(a, b, c) != 0) return false; ll d = (c.x - a.x) * (b.x - a.x) + (c.y - a.y) * (b.y - a.y), L = (b.x - a.x) * (b.x - a.x) + (b.y - a.y) * (b.y - a.y); return d >= 0 && d <= L; }
static bool proper(P a, P b, P c, P d) { return sg(cr(a, b, c)) * sg(cr(a, b, d)) < 0 && sg(cr(c, d, a)) * sg(cr(c, d, b)) < 0; }
static Point pt(P p) { return Point((double)p.x, (double)p.y); }

struct Xf { ll m, n, tx, ty; bool swap; const char *name; };   // (x,y) -> (m*x+tx, n*y+ty), optionally swapped axes
static P ap(const Xf &t, P p) { P q{t.m * p.x + t.tx, t.n * p.y + t.ty}; if (t.swap) std::swap(q.x, q.y); return q; }
static std::string ps(P p) { return mcx::fmt("(%lld,%lld)", p.x, p.y); }

static std::vector<Xf> transforms(bool thorough) {
    std::vector<Xf> v = {{1, 1, 0, 0, false, "identity"}, {-1, 1, 0, 0, false, "mirror-x"}, {1, 1, 0, 0, true, "swap-axes"}, {3, 3, -7, 11, false, "x3 + offset"},
                         {1 << 10, 1 << 10, 0, 0, false, "x2^10"}, {1 << 20, 1 << 20, 0, 0, false, "x2^20"}, {(1 << 20) - 1, (1 << 20) - 1, 12345, -54321, false, "x(2^20-1)+offset"},
                         {1, 1, 1LL << 30, -(1LL << 30), false, "translate 2^30"}, {7, 3, 0, 0, false, "anisotropic 7x3"}};
    if (thorough) for (int k = 1; k <= 20; k++) if (k != 10 && k != 20) v.push_back({1LL << k, 1LL << k, (k % 3) - 1, (k % 5) - 2, false, "x2^k"});
    if (thorough) { v.push_back({-(1 << 13) * 7, (1 << 13) * 7, 3, 5, false, "x-7*2^13"}); v.push_back({1048573, 1048573, 0, 0, false, "x1048573 (prime)"}); }
    return v;
}

static void fail(const char *pred, const Xf &t, const std::string &args, const std::string &obs) {
    ctx.violation(pred, {}, mcx::fmt("%s under %s args %s", pred, t.name, args.c_str()), obs);
}

int main(int argc, char **argv) {
    ctx.init(argc, argv);
    bool T = ctx.thorough();
    int G = 5;                       // 6x6 points
    std::vector<P> pts; for (int x = 0; x <= G; x++) for (int y = 0; y <= G; y++) pts.push_back({x, y});
    std::vector<Xf> xs = transforms(T);
    // ---- triples and 4-tuples
    for (auto &t : xs) {
        ctx.phase(mcx::fmt("point tuples on %dx%d grid under %s", G + 1, G + 1, t.name));
        for (auto a0 : pts) {
            if (!ctx.next()) continue;
            P a = ap(t, a0); long nt = 0, deg = 0;
            for (auto b0 : pts) for (auto c0 : pts) {
                P b = ap(t, b0), c = ap(t, c0); nt++;
                ll k = cr(a, b, c); if (k == 0) deg++;
                if (vecDir(pt(a), pt(b), pt(c)) != sg(k)) fail("vecDir", t, ps(a) + ps(b) + ps(c), mcx::fmt("got %d want %d", vecDir(pt(a), pt(b), pt(c)), sg(k)));
                if (colinear(pt(a), pt(b), pt(c)) != (k == 0)) fail("colinear", t, ps(a) + ps(b) + ps(c), "");
                if (pointOnLine(pt(a), pt(b), pt(c)) != onOpen(a, b, c)) fail("pointOnLine", t, ps(a) + ps(b) + ps(c), mcx::fmt("got %d want %d (open segment)", pointOnLine(pt(a), pt(b), pt(c)), onOpen(a, b, c)));
                if (pointOnLine(pt(a), pt(b), pt(c)) != pointOnLine(pt(b), pt(a), pt(c))) fail("pointOnLine_symmetry", t, ps(a) + ps(b) + ps(c), "");
                if (k == 0 && inBetween(pt(a), pt(b), pt(c)) != onOpen(a, b, c)) fail("inBetween", t, ps(a) + ps(b) + ps(c), "");
                for (auto d0 : pts) {
                    P d = ap(t, d0); nt++;
                    bool s = segmentIntersect(pt(a), pt(b), pt(c), pt(d)), ref = proper(a, b, c, d);
                    if (s != ref) fail("segmentIntersect", t, ps(a) + ps(b) + ps(c) + ps(d), mcx::fmt("got %d want %d", s, ref));
                    if (s != segmentIntersect(pt(c), pt(d), pt(a), pt(b)) || s != segmentIntersect(pt(b), pt(a), pt(c), pt(d)) || s != segmentIntersect(pt(a), pt(b), pt(d), pt(c))) fail("segmentIntersect_symmetry", t, ps(a) + ps(b) + ps(c) + ps(d), "");
                    // segmentShapeIntersect(e1=a,e2=b,s1=c,s2=d)
                    for (int seen0 = 0; seen0 < 2; seen0++) {
                        bool seen = seen0; bool r = segmentShapeIntersect(pt(a), pt(b), pt(c), pt(d), seen);
                        bool touch = ((eq(d, a) || onOpen(c, d, a)) && cr(c, d, b) != 0) || ((eq(d, b) || onOpen(c, d, b)) && cr(c, d, a) != 0);
                        bool wantR = ref ? true : (touch ? (bool)seen0 : false), wantSeen = ref ? (bool)seen0 : (touch ? true : (bool)seen0);
                        if (r != wantR || seen != wantSeen) fail("segmentShapeIntersect", t, ps(a) + ps(b) + ps(c) + ps(d) + mcx::fmt(" seen=%d", seen0), mcx::fmt("got %d/%d want %d/%d", r, seen, wantR, wantSeen));
                    }
                    // segmentIntersectPoint
                    double x = -99, y = -99; int r = segmentIntersectPoint(pt(a), pt(b), pt(c), pt(d), &x, &y);
                    ll f = (b.y - a.y) * (c.x - d.x) - (b.x - a.x) * (c.y - d.y); int want;
                    if (f == 0) {
                        bool col = cr(a, b, c) == 0 && cr(a, b, d) == 0 && cr(c, d, a) == 0 && cr(c, d, b) == 0;
                        bool box = std::max(std::min(a.x, b.x), std::min(c.x, d.x)) <= std::min(std::max(a.x, b.x), std::max(c.x, d.x)) && std::max(std::min(a.y, b.y), std::min(c.y, d.y)) <= std::min(std::max(a.y, b.y), std::max(c.y, d.y));
                        want = (col && box) ? PARALLEL : DONT_INTERSECT;
                    } else want = (sg(cr(a, b, c)) * sg(cr(a, b, d)) <= 0 && sg(cr(c, d, a)) * sg(cr(c, d, b)) <= 0) ? DO_INTERSECT : DONT_INTERSECT;
                    if (r != want) fail("segmentIntersectPoint", t, ps(a) + ps(b) + ps(c) + ps(d), mcx::fmt("got %d want %d", r, want));
                    else if (r == DO_INTERSECT) {
                        // exact intersection: a + (d_/f)(b-a) with d_ = By*Cx - Bx*Cy
                        long double dd = (long double)(c.y - d.y) * (a.x - c.x) - (long double)(c.x - d.x) * (a.y - c.y);
                        long double ex = a.x + dd * (b.x - a.x) / f, ey = a.y + dd * (b.y - a.y) / f;
                        long double tol = 1e-9L * std::max<long double>(1, std::max(fabsl(ex), fabsl(ey)));
                        if (fabsl(ex - x) > tol || fabsl(ey - y) > tol) fail("segmentIntersectPoint_coords", t, ps(a) + ps(b) + ps(c) + ps(d), mcx::fmt("got (%.17g,%.17g) want (%.17Lg,%.17Lg)", x, y, ex, ey));
                        int r2 = segmentIntersectPoint(pt(c), pt(d), pt(a), pt(b), &x, &y);
                        if (r2 != r || fabsl(ex - x) > tol || fabsl(ey - y) > tol) fail("segmentIntersectPoint_symmetry", t, ps(a) + ps(b) + ps(c) + ps(d), "");
                    }
                    int rr = rayIntersectPoint(pt(a), pt(b), pt(c), pt(d), &x, &y);
                    if (rr != (f == 0 ? PARALLEL : DO_INTERSECT)) fail("rayIntersectPoint", t, ps(a) + ps(b) + ps(c) + ps(d), mcx::fmt("got %d", rr));
                    // cornerSide(c1=a,c2=b,c3=c,p=d) and inValidRegion(a0=a,a1=b,a2=c,b=d)
                    { int s123 = sg(cr(a, b, c)), s12p = sg(cr(a, b, d)), s23p = sg(cr(b, c, d));
                      int wantCS = s123 == 1 ? ((s12p >= 0 && s23p >= 0) ? 1 : -1) : s123 == -1 ? ((s12p <= 0 && s23p <= 0) ? -1 : 1) : s12p;
                      if (cornerSide(pt(a), pt(b), pt(c), pt(d)) != wantCS) fail("cornerSide", t, ps(a) + ps(b) + ps(c) + ps(d), "");
                      int rS = sg(cr(d, a, b)), sS = sg(cr(d, b, c));
                      for (int ig = 0; ig < 2; ig++) {
                          bool wantV = s123 > 0 ? (ig ? ((rS <= 0 && !(sS < 0)) || (!(rS < 0) && sS <= 0)) : (rS <= 0 || sS <= 0)) : (ig ? false : (rS <= 0 && sS <= 0));
                          if (inValidRegion(ig, pt(a), pt(b), pt(c), pt(d)) != wantV) fail("inValidRegion", t, ps(a) + ps(b) + ps(c) + ps(d) + mcx::fmt(" ignore=%d", ig), "");
                      } }
                    // linesegment::LineSegment::Intersect
                    { linesegment::LineSegment l0(linesegment::Vector(a.x, a.y), linesegment::Vector(b.x, b.y)), l1(linesegment::Vector(c.x, c.y), linesegment::Vector(d.x, d.y));
                      linesegment::Vector ip; auto res = l0.Intersect(l1, ip);
                      ll denom = (d.y - c.y) * (b.x - a.x) - (b.y - a.y) * (d.x - c.x);
                      ll na = (d.x - c.x) * (a.y - c.y) - (d.y - c.y) * (a.x - c.x), nb = (b.x - a.x) * (a.y - c.y) - (b.y - a.y) * (a.x - c.x);
                      linesegment::LineSegment::IntersectResult wantL;
                      if (denom == 0) wantL = (na == 0 && nb == 0) ? linesegment::LineSegment::COINCIDENT : linesegment::LineSegment::PARALLEL;
                      else { bool in = (denom > 0 ? (na >= 0 && na <= denom && nb >= 0 && nb <= denom) : (na <= 0 && na >= denom && nb <= 0 && nb >= denom)); wantL = in ? linesegment::LineSegment::INTERSECTING : linesegment::LineSegment::NOT_INTERSECTING; }
                      if (res != wantL) fail("LineSegment::Intersect", t, ps(a) + ps(b) + ps(c) + ps(d), mcx::fmt("got %d want %d", (int)res, (int)wantL));
                    }
                }
            }
            ctx.count("evaluations", nt); ctx.count("states", nt); ctx.count("transitions", nt * 12); ctx.count("nontrivial", deg);
            ctx.sample(mcx::fmt("all (b,c,d) in grid^3 with a=%s under %s", ps(a).c_str(), t.name), 1);
            ctx.done_case();
        }
    }
    // ---- convex polygons x query points (half grid): inPoly both modes; simple quadrilaterals: inPolyGen
    int H = 3; std::vector<P> g4; for (int x = 0; x <= H; x++) for (int y = 0; y <= H; y++) g4.push_back({2 * x, 2 * y});
    std::vector<P> qs; for (int x = 0; x <= 2 * H; x++) for (int y = 0; y <= 2 * H; y++) qs.push_back({x, y});
    for (auto &t : xs) {
        ctx.phase(mcx::fmt("polygons on 4x4 grid x half-grid query points under %s", t.name));
        for (auto a0 : g4) {
            if (!ctx.next()) continue;
            long nt = 0, border = 0;
            for (auto b0 : g4) for (auto c0 : g4) for (int quad = 0; quad < 2; quad++) for (auto d0 : g4) {
                if (!quad && !eq(d0, g4[0])) continue;     // triangles: ignore d
                std::vector<P> pl = {ap(t, a0), ap(t, b0), ap(t, c0)}; if (quad) pl.push_back(ap(t, d0));
                size_t n = pl.size();
                // orientation after the transform may flip; libavoid wants cross>=0 inside, so reverse if needed
                bool distinct = true; for (size_t i = 0; i < n; i++) for (size_t j = i + 1; j < n; j++) if (eq(pl[i], pl[j])) distinct = false;
                if (!distinct) continue;
                // strictly convex in one orientation?
                int o = 0; bool convex = true;
                for (size_t i = 0; i < n; i++) { int s = sg(cr(pl[i], pl[(i + 1) % n], pl[(i + 2) % n])); if (s == 0) convex = false; else if (o == 0) o = s; else if (s != o) convex = false; }
                // simple (for quads): non-adjacent edges do not meet
                bool simple = true;
                if (quad) { if (proper(pl[0], pl[1], pl[2], pl[3]) || proper(pl[1], pl[2], pl[3], pl[0])) simple = false;
                            for (int i = 0; i < 4 && simple; i++) { P u = pl[i], v = pl[(i + 1) % 4], w = pl[(i + 2) % 4], z = pl[(i + 3) % 4];
                                if (onClosed(u, v, w) || onClosed(u, v, z) || onClosed(w, z, u) || onClosed(w, z, v)) simple = false; } }
                else if (cr(pl[0], pl[1], pl[2]) == 0) simple = false;
                if (!simple) continue;
                std::vector<P> cw = pl; if (o < 0) std::reverse(cw.begin(), cw.end());
                Polygon poly(n), polyGen(n); for (size_t i = 0; i < n; i++) { poly.ps[i] = pt(cw[i]); polyGen.ps[i] = pt(pl[i]); }
                for (auto q0 : qs) {
                    P q = ap(t, P{q0.x, q0.y}); // polygon vertices use even coordinates, so q ranges over the half grid
                    nt++;
                    // exact: boundary / inside by crossing number with exact arithmetic
                    bool onB = false; for (size_t i = 0; i < n; i++) if (onClosed(pl[i], pl[(i + 1) % n], q)) onB = true;
                    bool inside = false;
                    if (!onB) { int cn = 0; for (size_t i = 0; i < n; i++) { P u = pl[i], v = pl[(i + 1) % n]; if ((u.y > q.y) != (v.y > q.y)) { // edge straddles the horizontal through q
                                    // x of intersection > q.x  <=>  sign test
                                    ll num = (u.x - q.x) * (v.y - u.y) - (u.y - q.y) * (v.x - u.x); // = cross((u-q),(v-u)) ; intersection x-qx = num/(v.y-u.y)... use sign
                                    // x_int - q.x = (u.x-q.x) + (q.y-u.y)*(v.x-u.x)/(v.y-u.y) = num/(v.y-u.y)
                                    if ((num > 0) == ((v.y - u.y) > 0) && num != 0) cn++; } }
                                inside = cn & 1; }
                    if (onB) border++;
                    bool g = inPolyGen(polyGen, pt(q));
                    if (g != (onB || inside)) fail("inPolyGen", t, mcx::fmt("poly %s%s%s%s q=%s", ps(pl[0]).c_str(), ps(pl[1]).c_str(), ps(pl[2]).c_str(), quad ? ps(pl[3]).c_str() : "", ps(q).c_str()), mcx::fmt("got %d want %d", g, onB || inside));
                    if (convex) for (int cb = 0; cb < 2; cb++) {
                        bool r = inPoly(poly, pt(q), cb), want = cb ? (onB || inside) : inside;
                        if (r != want) fail("inPoly", t, mcx::fmt("poly %s%s%s%s q=%s countBorder=%d", ps(cw[0]).c_str(), ps(cw[1]).c_str(), ps(cw[2]).c_str(), quad ? ps(cw[3]).c_str() : "", ps(q).c_str(), cb), mcx::fmt("got %d want %d", r, want));
                    }
                }
            }
            ctx.count("evaluations", nt); ctx.count("states", nt); ctx.count("transitions", nt * 3); ctx.count("nontrivial", border);
            ctx.sample(mcx::fmt("all triangles/simple quadrilaterals with first vertex %s x 49 query points under %s", ps(ap(t, a0)).c_str(), t.name), 1);
            ctx.done_case();
        }
    }
    // ---- the SECOND polygon representation: Avoid::ReferencingPolygon (cluster boundaries), whose points are (shape id, vertex number) references resolved
    // through the router.  inPolyGen() takes a PolygonInterface, so it must give the same answer for a referencing polygon as for the plain polygon with the same
    // points (already compared with exact arithmetic above); at(i) must be the referenced vertex.  Four unit squares, every boundary that takes one corner
    // (any of the four vertex numbers) from each of 3 or 4 of them, every integer query point.
    {
        ctx.phase("ReferencingPolygon: boundaries through one corner (every vertex number) of each of 3-4 squares, inPolyGen and at() against the plain polygon with the same points");
        static const double SX[4] = {0, 8, 8, 0}, SY[4] = {0, 0, 8, 8};
        for (unsigned drop = 0; drop < 5; drop++) for (unsigned code = 0; code < 256; code++) {
            if (!ctx.next()) continue;
            Router *router = new Router(PolyLineRouting); std::vector<ShapeRef *> sh; for (int i = 0; i < 4; i++) { Rectangle r(Point(SX[i], SY[i]), Point(SX[i] + 2, SY[i] + 2)); sh.push_back(new ShapeRef(router, r, 10 + i)); }
            router->processTransaction();   // (shapes enter the router's obstacle list at the transaction)
            std::vector<int> use; for (int i = 0; i < 4; i++) if ((int)drop != i) use.push_back(i);
            Polygon refs(use.size()), plain(use.size()); std::string desc = "ReferencingPolygon through";
            for (size_t k = 0; k < use.size(); k++) { int vn = (code >> (2 * k)) & 3; const Polygon &sp = sh[use[k]]->polygon(); plain.ps[k] = sp.ps[vn]; refs.ps[k] = sp.ps[vn]; refs.ps[k].id = 10 + use[k]; refs.ps[k].vn = vn; desc += mcx::fmt(" square%d.v%d", use[k], vn); }
            ReferencingPolygon rp(refs, router); long nq = 0; bool bad = false;
            for (size_t k = 0; k < use.size() && !bad; k++) if (rp.at(k).x != plain.ps[k].x || rp.at(k).y != plain.ps[k].y) { ctx.violation("ReferencingPolygon::at", {}, desc, mcx::fmt("at(%zu) = (%g,%g), the referenced vertex is (%g,%g)", k, rp.at(k).x, rp.at(k).y, plain.ps[k].x, plain.ps[k].y)); bad = true; }
            for (int x = -1; x <= 11 && !bad; x++) for (int y = -1; y <= 11; y++) { Point q(x, y); nq++; if (inPolyGen(rp, q) != inPolyGen(plain, q)) { ctx.violation("inPolyGen(ReferencingPolygon)", {}, desc, mcx::fmt("query (%d,%d): referencing %d plain %d", x, y, (int)inPolyGen(rp, q), (int)inPolyGen(plain, q))); bad = true; break; } }
            ctx.count("evaluations", nq); ctx.count("states"); ctx.count("transitions", nq); ctx.count("nontrivial"); ctx.sample(desc, 1);
            delete router; ctx.done_case();
        }
    }
    return ctx.finish();
}
