// C07 / C08: libcola layouts on small graphs.
//   --prop C07 : every user compound constraint holds (1e-4) or is reported unsatisfiable; sizes unchanged; finite
//   --prop C08 : overlap avoidance + cluster containment when nothing is reported unsatisfiable
#include "libcola/cola.h"
#include "libcola/compound_constraints.h"
#include "libcola/cluster.h"
#include <cmath>
#include <functional>
#include <string>
#include <vector>
#include <memory>
#include "mcx/mcx.h"
using namespace cola; using namespace std;
static mcx::Ctx ctx;
typedef vector<double> VD;
struct Tpl { string name; function<CompoundConstraint *(vpsc::Rectangles &, vector<CompoundConstraint *> &)> make; function<double(const VD &, const VD &, const VD &, const VD &)> viol; int maxNode; function<void(CompoundConstraint *)> edit; };   // edit: the caller changes the constraint through its public setter (between two layouts); the oracle follows

static bool g_mode_makeFeasibleOnly = false; static vector<double> g_w, g_h;   // (for the page-boundary template: its oracle needs the node sizes and is not evaluated after makeFeasible() alone)
static vector<Tpl> templates() {
    vector<Tpl> T;
    for (int dim = 0; dim < 2; dim++) {
        vpsc::Dim D = (vpsc::Dim)dim; string ds = dim ? "Y" : "X";
        auto P = [dim](const VD &x, const VD &y) -> const VD & { return dim ? y : x; };
        for (double g : {-5.0, 15.0, 200.0}) for (int eq = 0; eq < 2; eq++)
            T.push_back({"Separation " + ds + " 0+" + mcx::g(g) + (eq ? "==" : "<=") + "1", [=](vpsc::Rectangles &, vector<CompoundConstraint *> &) -> CompoundConstraint * { return new SeparationConstraint(D, 0, 1, g, eq); },
                         [=](const VD &x, const VD &y, const VD &, const VD &) { const VD &p = P(x, y); double s = p[1] - p[0] - g; return eq ? fabs(s) : max(0.0, -s); }, 1});
        T.push_back({"Separation " + ds + " 1+15<=2", [=](vpsc::Rectangles &, vector<CompoundConstraint *> &) -> CompoundConstraint * { return new SeparationConstraint(D, 1, 2, 15, false); }, [=](const VD &x, const VD &y, const VD &, const VD &) { const VD &p = P(x, y); return max(0.0, -(p[2] - p[1] - 15)); }, 2});
        T.push_back({"Separation " + ds + " 2+15<=0", [=](vpsc::Rectangles &, vector<CompoundConstraint *> &) -> CompoundConstraint * { return new SeparationConstraint(D, 2, 0, 15, false); }, [=](const VD &x, const VD &y, const VD &, const VD &) { const VD &p = P(x, y); return max(0.0, -(p[0] - p[2] - 15)); }, 2});
        T.push_back({"Alignment " + ds + " {0:+0,2:+7}", [=](vpsc::Rectangles &, vector<CompoundConstraint *> &) -> CompoundConstraint * { AlignmentConstraint *a = new AlignmentConstraint(D); a->addShape(0, 0); a->addShape(2, 7); return a; }, [=](const VD &x, const VD &y, const VD &, const VD &) { const VD &p = P(x, y); return fabs((p[0] - 0) - (p[2] - 7)); }, 2});
        T.push_back({"Alignment " + ds + " {0:-3,1:+4,2:0}", [=](vpsc::Rectangles &, vector<CompoundConstraint *> &) -> CompoundConstraint * { AlignmentConstraint *a = new AlignmentConstraint(D); a->addShape(0, -3); a->addShape(1, 4); a->addShape(2, 0); return a; }, [=](const VD &x, const VD &y, const VD &, const VD &) { const VD &p = P(x, y); return max(fabs((p[0] + 3) - (p[1] - 4)), fabs((p[0] + 3) - p[2])); }, 2});
        T.push_back({"Boundary " + ds + " {0:-12,1:+12}", [=](vpsc::Rectangles &, vector<CompoundConstraint *> &) -> CompoundConstraint * { BoundaryConstraint *b = new BoundaryConstraint(D); b->addShape(0, -12); b->addShape(1, 12); return b; }, [=](const VD &x, const VD &y, const VD &, const VD &) { const VD &p = P(x, y); return max(0.0, (p[0] + 12) - (p[1] - 12)); }, 1});
        T.push_back({"Distribution " + ds + " a0|a1|a2 sep 25", [=](vpsc::Rectangles &, vector<CompoundConstraint *> &extra) -> CompoundConstraint * { AlignmentConstraint *a0 = new AlignmentConstraint(D), *a1 = new AlignmentConstraint(D), *a2 = new AlignmentConstraint(D); a0->addShape(0, 0); a1->addShape(1, 0); a2->addShape(2, 0); extra.push_back(a0); extra.push_back(a1); extra.push_back(a2); DistributionConstraint *d = new DistributionConstraint(D); d->addAlignmentPair(a0, a1); d->addAlignmentPair(a1, a2); d->setSeparation(25); return d; },
                     [=](const VD &x, const VD &y, const VD &, const VD &) { const VD &p = P(x, y); return max(fabs(p[1] - p[0] - 25), fabs(p[2] - p[1] - 25)); }, 2});
        T.push_back({"MultiSeparation " + ds + " a0,a1 minsep 18", [=](vpsc::Rectangles &, vector<CompoundConstraint *> &extra) -> CompoundConstraint * { AlignmentConstraint *a0 = new AlignmentConstraint(D), *a1 = new AlignmentConstraint(D); a0->addShape(0, 0); a1->addShape(1, 0); extra.push_back(a0); extra.push_back(a1); MultiSeparationConstraint *m = new MultiSeparationConstraint(D, 18, false); m->addAlignmentPair(a0, a1); return m; },
                     [=](const VD &x, const VD &y, const VD &, const VD &) { const VD &p = P(x, y); return max(0.0, -(p[1] - p[0] - 18)); }, 1});
        // ... and as an EQUALITY (the optional third constructor argument): the guide lines exactly 18 apart; over two pairs (a0,a1),(a1,a2) exactly 18 each
        T.push_back({"MultiSeparation " + ds + " a0,a1 sep 18 ==", [=](vpsc::Rectangles &, vector<CompoundConstraint *> &extra) -> CompoundConstraint * { AlignmentConstraint *a0 = new AlignmentConstraint(D), *a1 = new AlignmentConstraint(D); a0->addShape(0, 0); a1->addShape(1, 0); extra.push_back(a0); extra.push_back(a1); MultiSeparationConstraint *m = new MultiSeparationConstraint(D, 18, true); m->addAlignmentPair(a0, a1); return m; },
                     [=](const VD &x, const VD &y, const VD &, const VD &) { const VD &p = P(x, y); return fabs(p[1] - p[0] - 18); }, 1});
        T.push_back({"MultiSeparation " + ds + " a0,a1 and a1,a2 sep 22 ==", [=](vpsc::Rectangles &, vector<CompoundConstraint *> &extra) -> CompoundConstraint * { AlignmentConstraint *a0 = new AlignmentConstraint(D), *a1 = new AlignmentConstraint(D), *a2 = new AlignmentConstraint(D); a0->addShape(0, 0); a1->addShape(1, 0); a2->addShape(2, 0); extra.push_back(a0); extra.push_back(a1); extra.push_back(a2); MultiSeparationConstraint *m = new MultiSeparationConstraint(D, 22, true); m->addAlignmentPair(a0, a1); m->addAlignmentPair(a1, a2); return m; },
                     [=](const VD &x, const VD &y, const VD &, const VD &) { const VD &p = P(x, y); return max(fabs(p[1] - p[0] - 22), fabs(p[2] - p[1] - 22)); }, 2});
    }
    // the public setters: the constraint is constructed with one value and given another through setSeparation() BEFORE the first layout (and, in the histories,
    // a third one between two layouts); the value in force is whatever the last setter call said
    for (int dim = 0; dim < 2; dim++) { vpsc::Dim D = (vpsc::Dim)dim; string ds = dim ? "Y" : "X"; auto P = [dim](const VD &x, const VD &y) -> const VD & { return dim ? y : x; };
        { auto cur = std::make_shared<double>(0);
          T.push_back({"Separation " + ds + " 0+g<=1, g=40 at construction, then setSeparation(15)", [=](vpsc::Rectangles &, vector<CompoundConstraint *> &) -> CompoundConstraint * { SeparationConstraint *c = new SeparationConstraint(D, 0, 1, 40, false); c->setSeparation(15); *cur = 15; return c; },
                       [=](const VD &x, const VD &y, const VD &, const VD &) { const VD &p = P(x, y); return max(0.0, -(p[1] - p[0] - *cur)); }, 1, [=](CompoundConstraint *c) { double nv = *cur == 15 ? 33 : 15; static_cast<SeparationConstraint *>(c)->setSeparation(nv); *cur = nv; }}); }
        { auto cur = std::make_shared<double>(0);
          T.push_back({"MultiSeparation " + ds + " a0,a1 minsep g, g=5 at construction, then setSeparation(26)", [=](vpsc::Rectangles &, vector<CompoundConstraint *> &extra) -> CompoundConstraint * { AlignmentConstraint *a0 = new AlignmentConstraint(D), *a1 = new AlignmentConstraint(D); a0->addShape(0, 0); a1->addShape(1, 0); extra.push_back(a0); extra.push_back(a1);
                           MultiSeparationConstraint *m = new MultiSeparationConstraint(D, 5, false); m->addAlignmentPair(a0, a1); m->setSeparation(26); *cur = 26; return m; },
                       [=](const VD &x, const VD &y, const VD &, const VD &) { const VD &p = P(x, y); return max(0.0, -(p[1] - p[0] - *cur)); }, 1, [=](CompoundConstraint *c) { double nv = *cur == 26 ? 12 : 26; static_cast<MultiSeparationConstraint *>(c)->setSeparation(nv); *cur = nv; }}); }
        { auto cur = std::make_shared<double>(0);
          T.push_back({"Distribution " + ds + " a0|a1|a2 sep g, g=60 at construction, then setSeparation(22)", [=](vpsc::Rectangles &, vector<CompoundConstraint *> &extra) -> CompoundConstraint * { AlignmentConstraint *a0 = new AlignmentConstraint(D), *a1 = new AlignmentConstraint(D), *a2 = new AlignmentConstraint(D); a0->addShape(0, 0); a1->addShape(1, 0); a2->addShape(2, 0); extra.push_back(a0); extra.push_back(a1); extra.push_back(a2);
                           DistributionConstraint *d = new DistributionConstraint(D); d->addAlignmentPair(a0, a1); d->addAlignmentPair(a1, a2); d->setSeparation(60); d->setSeparation(22); *cur = 22; return d; },
                       [=](const VD &x, const VD &y, const VD &, const VD &) { const VD &p = P(x, y); return max(fabs(p[1] - p[0] - *cur), fabs(p[2] - p[1] - *cur)); }, 2, [=](CompoundConstraint *c) { double nv = *cur == 22 ? 31 : 22; static_cast<DistributionConstraint *>(c)->setSeparation(nv); *cur = nv; }}); }
    }
    // fixed-relative groups: relative offsets of the members stay what they were at construction (x0,y0 = initial centres)
    T.push_back({"FixedRelative {0,1}", [=](vpsc::Rectangles &rs, vector<CompoundConstraint *> &) -> CompoundConstraint * { return new FixedRelativeConstraint(rs, {0, 1}); }, [=](const VD &x, const VD &y, const VD &x0, const VD &y0) { return max(fabs((x[1] - x[0]) - (x0[1] - x0[0])), fabs((y[1] - y[0]) - (y0[1] - y0[0]))); }, 1});
    T.push_back({"FixedRelative {0,1,2}", [=](vpsc::Rectangles &rs, vector<CompoundConstraint *> &) -> CompoundConstraint * { return new FixedRelativeConstraint(rs, {0, 1, 2}); }, [=](const VD &x, const VD &y, const VD &x0, const VD &y0) { double v = 0; for (int i = 1; i < 3; i++) v = max(v, max(fabs((x[i] - x[0]) - (x0[i] - x0[0])), fabs((y[i] - y[0]) - (y0[i] - y0[0])))); return v; }, 2});
    // fixedPosition = true: "the group of nodes will attempt to stay close to its current position" -- a soft preference (weight 1e5), so
    // the hard part is still only the relative offsets; the variants are in the alphabet because they take a different path (fixed weights)
    T.push_back({"FixedRelative fixedPosition {0,1}", [=](vpsc::Rectangles &rs, vector<CompoundConstraint *> &) -> CompoundConstraint * { return new FixedRelativeConstraint(rs, {0, 1}, true); }, [=](const VD &x, const VD &y, const VD &x0, const VD &y0) { return max(fabs((x[1] - x[0]) - (x0[1] - x0[0])), fabs((y[1] - y[0]) - (y0[1] - y0[0]))); }, 1});
    T.push_back({"FixedRelative fixedPosition {1,2}", [=](vpsc::Rectangles &rs, vector<CompoundConstraint *> &) -> CompoundConstraint * { return new FixedRelativeConstraint(rs, {1, 2}, true); }, [=](const VD &x, const VD &y, const VD &x0, const VD &y0) { return max(fabs((x[2] - x[1]) - (x0[2] - x0[1])), fabs((y[2] - y[1]) - (y0[2] - y0[1]))); }, 2});
    // a separation BETWEEN TWO ALIGNMENT guide lines (the SeparationConstraint(dim, AlignmentConstraint*, AlignmentConstraint*, gap, equality) constructor)
    for (int dim = 0; dim < 2; dim++) for (int eq = 0; eq < 2; eq++) { vpsc::Dim D = (vpsc::Dim)dim; string ds = dim ? "Y" : "X";
        T.push_back({"Separation " + ds + " between guide lines a0{0:+0,1:+5} +20" + (eq ? "==" : "<=") + " a1{2:+0}", [=](vpsc::Rectangles &, vector<CompoundConstraint *> &extra) -> CompoundConstraint * { AlignmentConstraint *a0 = new AlignmentConstraint(D), *a1 = new AlignmentConstraint(D); a0->addShape(0, 0); a0->addShape(1, 5); a1->addShape(2, 0); extra.push_back(a0); extra.push_back(a1); return new SeparationConstraint(D, a0, a1, 20, eq); },
                     [=](const VD &x, const VD &y, const VD &, const VD &) { const VD &p = dim ? y : x; double sp = p[2] - p[0] - 20; return max(fabs(p[1] - 5 - p[0]), eq ? fabs(sp) : max(0.0, -sp)); }, 2}); }
    // page boundary: every node stays inside the page whose edges are themselves (heavily weighted) variables -- judged against the edges' actual positions
    // after the layout.  The library does not evaluate page boundaries in makeFeasible() (documented in the code), so that mode is not judged.
    { auto holder = std::make_shared<PageBoundaryConstraints *>(nullptr);
      T.push_back({"PageBoundary [-15,45]x[-15,45] {0,1,2}", [=](vpsc::Rectangles &rs, vector<CompoundConstraint *> &) -> CompoundConstraint * { PageBoundaryConstraints *pb = new PageBoundaryConstraints(-15, 45, -15, 45, 100.0); for (unsigned i = 0; i < 3 && i < rs.size(); i++) pb->addShape(i, rs[i]->width() / 2, rs[i]->height() / 2); *holder = pb; return pb; },
                   [=](const VD &x, const VD &y, const VD &, const VD &) { PageBoundaryConstraints *pb = *holder; if (!pb || g_mode_makeFeasibleOnly) return 0.0; double v = 0; for (size_t i = 0; i < 3 && i < x.size(); i++) { double hw = g_w[i] / 2, hh = g_h[i] / 2;
                       v = max(v, pb->getActualLeftMargin(vpsc::XDIM) + hw - x[i]); v = max(v, x[i] + hw - pb->getActualRightMargin(vpsc::XDIM)); v = max(v, pb->getActualLeftMargin(vpsc::YDIM) + hh - y[i]); v = max(v, y[i] + hh - pb->getActualRightMargin(vpsc::YDIM)); } return v; }, 2}); }
    return T;
}
static const double GRID[3] = {0, 10, 30};
static vector<vector<Edge>> edge_sets(int n) { vector<vector<Edge>> v; v.push_back({}); v.push_back({Edge(0, 1)}); vector<Edge> path; for (int i = 0; i + 1 < n; i++) path.push_back(Edge(i, i + 1)); v.push_back(path); if (n >= 3) { vector<Edge> cyc = path; cyc.push_back(Edge(0, n - 1)); v.push_back(cyc); } return v; }
static const char *MODES[] = {"makeFeasible+run", "run", "makeFeasible", "makeFeasible+runOnce", "ConstrainedMajorizationLayout.run"};

struct Run { vector<double> x, y, w, h; bool threw = false; string what; };

static void c07_case(const vector<Tpl> &T, int a, int b, int n, int code, int sz, int eset, int mode, bool overlap, bool nbr) {
    vpsc::Rectangles rs; int c = code; VD x0, y0, w0, h0;
    for (int i = 0; i < n; i++) { double x = GRID[c % 3]; c /= 3; double y = GRID[c % 3]; c /= 3; double w = ((sz >> i) & 1) ? 40 : 20, h = 20; rs.push_back(new vpsc::Rectangle(x - w / 2, x + w / 2, y - h / 2, y + h / 2)); x0.push_back(x); y0.push_back(y); w0.push_back(w); h0.push_back(h); }
    vector<Edge> es = edge_sets(n)[eset];
    CompoundConstraints ccs; vector<CompoundConstraint *> extra, mine[2]; vector<int> used = {a}; if (b != a) used.push_back(b);
    for (size_t k = 0; k < used.size(); k++) { size_t e0 = extra.size(); CompoundConstraint *cc = T[used[k]].make(rs, extra); ccs.push_back(cc); mine[k].push_back(cc); for (size_t q = e0; q < extra.size(); q++) mine[k].push_back(extra[q]); }
    for (auto e : extra) ccs.insert(ccs.begin(), e);
    UnsatisfiableConstraintInfos ux, uy; string thrown;
    string desc = mcx::fmt("%s overlap=%d nbrStress=%d n=%d edges#%d sizes=%d start:", MODES[mode], overlap, nbr, n, eset, sz);
    for (int i = 0; i < n; i++) desc += mcx::fmt("(%g,%g)", x0[i], y0[i]);
    desc += " constraints: [" + T[a].name + "]" + (b != a ? " + [" + T[b].name + "]" : "");
    ctx.count("transitions"); ctx.count("evaluations"); ctx.announce(desc);
    // input class of KF-C07-3 / KF-C15-3: ConstrainedMajorizationLayout with setAvoidOverlaps() and a FixedRelativeConstraint whose group
    // is marked fixedPosition -- the gradient projection diverges (coordinates ~1e13) or never returns
    bool cmlFixed = mode == 4 && overlap && (T[a].name.find("fixedPosition") != string::npos || T[b].name.find("fixedPosition") != string::npos);
    vector<string> inClass; if (cmlFixed) { inClass.push_back("cml_avoid_overlaps_with_fixed_position_group"); ctx.arm_timeout(ctx.c15() ? "no_return" : "", inClass, desc, 3); }
    try {
        if (mode < 4) {
            ConstrainedFDLayout alg(rs, es, 30); alg.setConstraints(ccs); alg.setAvoidNodeOverlaps(overlap); alg.setUseNeighbourStress(nbr); alg.setUnsatisfiableConstraintInfo(&ux, &uy);
            if (mode == 0) { alg.makeFeasible(); alg.run(); } else if (mode == 1) alg.run(); else if (mode == 2) alg.makeFeasible(); else { alg.makeFeasible(); alg.runOnce(); }
        } else {
            ConstrainedMajorizationLayout alg(rs, es, nullptr, 30); alg.setConstraints(&ccs); alg.setUnsatisfiableConstraintInfo(&ux, &uy); if (overlap) alg.setAvoidOverlaps(); alg.run();
        }
    } catch (vpsc::CriticalFailure &f) { thrown = f.what(); ctx.library_abort(f.what(), desc, inClass); } catch (...) { thrown = "exception"; ctx.library_abort("exception", desc, inClass); }
    if (cmlFixed) ctx.disarm();
    g_mode_makeFeasibleOnly = (mode == 2); g_w = w0; g_h = h0;
    VD x, y; bool bad = false; string pos;
    for (int i = 0; i < n; i++) { x.push_back(rs[i]->getCentreX()); y.push_back(rs[i]->getCentreY()); pos += mcx::fmt("(%g,%g)", x[i], y[i]);
        if (!(x[i] == x[i]) || !(y[i] == y[i]) || std::isinf(x[i]) || std::isinf(y[i])) { ctx.violation("nonfinite", inClass, desc, pos); bad = true; }
        if (fabs(rs[i]->width() - w0[i]) > 1e-9 || fabs(rs[i]->height() - h0[i]) > 1e-9) { ctx.violation("size_changed", inClass, desc, mcx::fmt("node %d %gx%g", i, rs[i]->width(), rs[i]->height())); bad = true; } }
    bool anyRep = !ux.empty() || !uy.empty(); if (anyRep) ctx.count("reported_unsatisfiable");
    string who; for (auto *lst : {&ux, &uy}) { for (auto *u : *lst) { int owner = -1; for (size_t k = 0; k < used.size(); k++) for (auto m : mine[k]) if (u->cc == m) owner = k; who += mcx::fmt("%s:#%d(%u+%g%s%u) ", lst == &ux ? "x" : "y", owner, u->leftVarIndex, u->separation, u->equality ? "==" : "<=", u->rightVarIndex); } }
    if (!bad) for (size_t k = 0; k < used.size(); k++) {   // judged even when an internal assertion threw: the rectangles are still there
        double v = T[used[k]].viol(x, y, x0, y0);
        if (v > 1e-4) {
            bool excused = false; for (auto *u : ux) for (auto m : mine[k]) if (u->cc == m) excused = true; for (auto *u : uy) for (auto m : mine[k]) if (u->cc == m) excused = true;
            // makeFeasible() on its own reports through SubConstraintInfo::satisfied, not through the lists
            if (mode == 2 && (used.size() > 1 || overlap)) for (auto m : mine[k]) for (auto *sc : m->_subConstraintInfo) if (!sc->satisfied) excused = true;   // a single user constraint without overlap avoidance is always satisfiable: a flag cannot excuse it
            // known-finding class: overlap avoidance on, two user EQUALITY constraints that share an axis (Separation ==, Alignment,
            // Distribution, FixedRelative), this one violated and unreported while the OTHER one is named in the lists
            vector<string> kc = inClass;
            if (overlap && used.size() == 2) {
                auto eqAxes = [&](const string &nm) { int m = 0; if (nm.find("FixedRelative") == 0) m = 3; else if (nm.find("==") != string::npos || nm.find("Alignment") == 0 || nm.find("Distribution") == 0 || nm.find("between guide lines") != string::npos) m = nm.find(" X ") != string::npos ? 1 : 2; return m; };   // (a separation between guide lines contains the guide lines' alignments, which are equalities)
                int mine_ = eqAxes(T[used[k]].name), other_ = eqAxes(T[used[1 - k]].name); bool otherReported = false;
                for (auto *lst : {&ux, &uy}) for (auto *u : *lst) for (auto m : mine[1 - k]) if (u->cc == m) otherReported = true;
                if ((mine_ & other_) && otherReported) kc.push_back("contradicting_equalities_with_nonoverlap");
            }
            // known-finding class: overlap avoidance on, layout produced by run(): a generated non-overlap constraint between two of this
            // constraint's nodes is TIGHT in the final layout along an axis the constraint restricts (the two rectangles abut exactly
            // there and overlap in the other axis) -- the final, non-reporting projection (setPosition -> moveTo) let non-overlap win
            if (overlap && (mode == 0 || mode == 1)) { const string &nm = T[used[k]].name; bool cx = nm.find(" X ") != string::npos || nm.find("FixedRelative") == 0, cy = nm.find(" Y ") != string::npos || nm.find("FixedRelative") == 0; bool tight = false;
                for (int i = 0; i <= T[used[k]].maxNode; i++) for (int j = i + 1; j <= T[used[k]].maxNode; j++) { double dx = fabs(x[i] - x[j]), dy = fabs(y[i] - y[j]), sx = (w0[i] + w0[j]) / 2, sy = (h0[i] + h0[j]) / 2;
                    if (cx && fabs(dx - sx) < 1e-6) tight = true; if (cy && fabs(dy - sy) < 1e-6) tight = true; }   // exact abutment along the restricted axis (the generated constraint may stem from an earlier iteration in which the two still overlapped in the other axis)
                if (tight) kc.push_back("nonoverlap_tight_between_constrained_nodes"); }
            if (excused) ctx.count("violated_and_reported");
            else ctx.violation(anyRep ? "violated_other_constraint_reported" : "violated_without_report", kc, desc, mcx::fmt("[%s] violated by %g; reported %zu+%zu (%s); final ", T[used[k]].name.c_str(), v, ux.size(), uy.size(), who.c_str()) + pos);
        }
    }
    if (anyRep || b != a) ctx.count("nontrivial");
    for (auto r : rs) delete r; for (auto cc : ccs) delete cc; for (auto u : ux) delete u; for (auto u : uy) delete u;
}
static void c07_phase(int n, int mode, bool overlap, bool nbr, int placementStep, int eset, int szmask, int maxPair) {
    vector<Tpl> T = templates();
    ctx.phase(mcx::fmt("C07 %s n=%d overlap=%d nbrStress=%d edges#%d sizes=%d every <=%d-subset of %zu templates x every %d-th of %d placements", MODES[mode], n, overlap, nbr, eset, szmask, maxPair, T.size(), placementStep, (int)pow(3, 2 * n)));
    int tot = 1; for (int i = 0; i < 2 * n; i++) tot *= 3;
    for (size_t a = 0; a < T.size(); a++) for (size_t b = a; b < T.size(); b++) { if (maxPair == 1 && b != a) continue; if (T[a].maxNode >= n || T[b].maxNode >= n) continue;
        for (int code = 0; code < tot; code += placementStep) { if (!ctx.next()) continue; ctx.count("states"); c07_case(T, a, b, n, code, szmask, eset, mode, overlap, nbr); ctx.sample(mcx::fmt("[%s]+[%s] placement code %d", T[a].name.c_str(), T[b].name.c_str(), code), 1); ctx.done_case(); }
        if (ctx.stopped()) return; }
}

// ---- C08 -------------------------------------------------------------------------------
struct Hier { const char *name; vector<vector<int>> top; vector<int> nestedIn0; int emptyCluster = 0; int rectIdx = -1; };   // rectIdx >= 0: top-level cluster 0 is RectangularCluster(rectIdx), a cluster that IS node rectangle rectIdx (80x80 here) and contains its child nodes   // top-level clusters; optional child cluster inside cluster 0; emptyCluster: 1 an EMPTY child cluster of cluster 0 listed after the nested child, 2 listed before it, 3 an empty top-level cluster
// exempt: 0 none, 1 {0,1}, 2 {0,2}, 3 {0,3}, 4 {1,3}, 5 {0,1,3} -- groups whose members are NOT adjacent in the index order have other nodes between them
static const vector<vector<unsigned>> EXG = {{}, {0, 1}, {0, 2}, {0, 3}, {1, 3}, {0, 1, 3}};
static void c08_case(int n, int code, int sz, int hier, double pad, int exempt, bool withSep) {
    static const vector<Hier> H = {{"none", {}, {}}, {"{0,1}|{2,3}", {{0, 1}, {2, 3}}, {}}, {"{0,2}|{1}", {{0, 2}, {1}}, {}}, {"{0,1,2}|{3}", {{0, 1, 2}, {3}}, {}}, {"{{0,1},2}|{3}", {{2}, {3}}, {0, 1}},
                                   {"{{0,1},{}}|{2,3}", {{}, {2, 3}}, {0, 1}, 1}, {"{{},{0,1}}|{2,3}", {{}, {2, 3}}, {0, 1}, 2}, {"{0,1}|{}|{2,3}", {{0, 1}, {2, 3}}, {}, 3}, {"{{0,1},{},2}|{3}", {{2}, {3}}, {0, 1}, 1},
                                   {"rect0{1,2}|{3}", {{1, 2}, {3}}, {}, 0, 0}, {"rect3{0,1}|{2}", {{0, 1}, {2}}, {}, 0, 3}, {"rect0{1,2}, node 3 free", {{1, 2}}, {}, 0, 0}, {"rect2{0,1}, node 3 free", {{0, 1}}, {}, 0, 2}};
    const Hier &hr = H[hier]; for (auto &m : hr.top) for (int v : m) if (v >= n) return; for (int v : hr.nestedIn0) if (v >= n) return;
    vpsc::Rectangles rs; int c = code; VD w0, h0; string start;
    double G2[3] = {0, 15, 40};
    for (int i = 0; i < n; i++) { double x = G2[c % 3]; c /= 3; double y = G2[c % 3]; c /= 3; double w = ((sz >> i) & 1) ? 40 : 20, h = 20; if (i == hr.rectIdx) w = h = 80; rs.push_back(new vpsc::Rectangle(x - w / 2, x + w / 2, y - h / 2, y + h / 2)); w0.push_back(w); h0.push_back(h); start += mcx::fmt("(%g,%g)", x, y); }
    vector<Edge> es; for (int i = 0; i + 1 < n; i++) es.push_back(Edge(i, i + 1));
    CompoundConstraints ccs; if (withSep) ccs.push_back(new SeparationConstraint(vpsc::XDIM, 0, 1, 15));
    RootCluster *root = nullptr; vector<vector<int>> groups;   // member sets whose bounding boxes are judged
    if (!hr.top.empty()) {
        root = new RootCluster();
        for (size_t k = 0; k < hr.top.size(); k++) { RectangularCluster *rc = (k == 0 && hr.rectIdx >= 0) ? new RectangularCluster((unsigned)hr.rectIdx) : new RectangularCluster(); rc->setPadding(Box(pad)); rc->setMargin(Box(pad)); vector<int> mem = hr.top[k]; for (int v : hr.top[k]) rc->addChildNode(v);
            if (k == 0 && !hr.nestedIn0.empty()) { RectangularCluster *in = new RectangularCluster(); in->setPadding(Box(pad)); in->setMargin(Box(pad)); for (int v : hr.nestedIn0) { in->addChildNode(v); mem.push_back(v); }
                if (hr.emptyCluster == 2) rc->addChildCluster(new RectangularCluster()); rc->addChildCluster(in); if (hr.emptyCluster == 1) rc->addChildCluster(new RectangularCluster()); }
            if (k == 0 && hr.rectIdx >= 0) mem.push_back(hr.rectIdx);   // the cluster's own rectangle belongs to it
            root->addChildCluster(rc); if (k == 0 && hr.emptyCluster == 3) root->addChildCluster(new RectangularCluster()); groups.push_back(mem); }
    }
    string desc = mcx::fmt("n=%d start %s sizes=%d clusters=%s padding/margin=%g exempt group#%d sep(0+15<=1)=%d", n, start.c_str(), sz, hr.name, pad, exempt, withSep);
    UnsatisfiableConstraintInfos ux, uy; string thrown; ctx.count("transitions"); ctx.count("evaluations"); ctx.announce(desc);
    try {
        ConstrainedFDLayout alg(rs, es, 30);
        if (exempt) alg.setAvoidNodeOverlaps(true, {EXG[exempt]}); else alg.setAvoidNodeOverlaps(true);
        alg.setConstraints(ccs); if (root) alg.setClusterHierarchy(root); alg.setUnsatisfiableConstraintInfo(&ux, &uy);
        alg.makeFeasible(); alg.run();
    } catch (vpsc::CriticalFailure &f) { thrown = f.what(); ctx.library_abort(f.what(), desc); } catch (...) { thrown = "exception"; ctx.library_abort("exception", desc); }
    bool un = !ux.empty() || !uy.empty(); if (un) ctx.count("reported_unsatisfiable");
    string pos; for (int i = 0; i < n; i++) pos += mcx::fmt("[%g,%g %gx%g]", rs[i]->getCentreX(), rs[i]->getCentreY(), rs[i]->width(), rs[i]->height());
    for (int i = 0; i < n; i++) { if (!(rs[i]->getCentreX() == rs[i]->getCentreX()) || std::isinf(rs[i]->getCentreX()) || !(rs[i]->getCentreY() == rs[i]->getCentreY())) ctx.violation("nonfinite", {}, desc, pos); if (fabs(rs[i]->width() - w0[i]) > 1e-9 || fabs(rs[i]->height() - h0[i]) > 1e-9) ctx.violation("size_changed", {}, desc, pos); }
    if (!un) {   // judged even when an internal assertion threw
        for (int i = 0; i < n; i++) for (int j = i + 1; j < n; j++) { if (exempt) { bool gi = false, gj = false; for (unsigned m : EXG[exempt]) { if ((int)m == i) gi = true; if ((int)m == j) gj = true; } if (gi && gj) continue; }
            if (hr.rectIdx >= 0 && (i == hr.rectIdx || j == hr.rectIdx)) { int o = i == hr.rectIdx ? j : i; bool member = false; for (int m : hr.top[0]) if (m == o) member = true; if (member) continue; }   // a member lies inside its cluster's rectangle by design
            double qx = min(rs[i]->getMaxX(), rs[j]->getMaxX()) - max(rs[i]->getMinX(), rs[j]->getMinX()), qy = min(rs[i]->getMaxY(), rs[j]->getMaxY()) - max(rs[i]->getMinY(), rs[j]->getMinY());
            if (qx > 1e-3 && qy > 1e-3) ctx.violation("node_overlap", {}, desc, mcx::fmt("nodes %d,%d overlap %gx%g: ", i, j, qx, qy) + pos); }
        auto bbox = [&](const vector<int> &m, double &x0, double &x1, double &y0, double &y1) { x0 = y0 = 1e18; x1 = y1 = -1e18; for (int v : m) { x0 = min(x0, rs[v]->getMinX()); x1 = max(x1, rs[v]->getMaxX()); y0 = min(y0, rs[v]->getMinY()); y1 = max(y1, rs[v]->getMaxY()); } };
        for (size_t k = 0; k < groups.size(); k++) { double a0, a1, b0, b1; bbox(groups[k], a0, a1, b0, b1);
            for (size_t l = k + 1; l < groups.size(); l++) { double c0, c1, d0, d1; bbox(groups[l], c0, c1, d0, d1); double ox = min(a1, c1) - max(a0, c0), oy = min(b1, d1) - max(b0, d0); if (ox > 1e-3 && oy > 1e-3) ctx.violation("sibling_clusters_overlap", {}, desc, pos); }
            for (int v = 0; v < n; v++) { bool isM = false; for (int m : groups[k]) if (m == v) isM = true; if (isM) continue; double qx = min(a1, rs[v]->getMaxX()) - max(a0, rs[v]->getMinX()), qy = min(b1, rs[v]->getMaxY()) - max(b0, rs[v]->getMinY()); if (qx > 1e-3 && qy > 1e-3) ctx.violation("nonmember_inside_cluster", {}, desc, mcx::fmt("node %d inside cluster %zu: ", v, k) + pos); } }
        if (!hr.nestedIn0.empty()) { double a0, a1, b0, b1; bbox(hr.nestedIn0, a0, a1, b0, b1); for (int v = 0; v < n; v++) { bool isM = false; for (int m : hr.nestedIn0) if (m == v) isM = true; if (isM) continue; double qx = min(a1, rs[v]->getMaxX()) - max(a0, rs[v]->getMinX()), qy = min(b1, rs[v]->getMaxY()) - max(b0, rs[v]->getMinY()); if (qx > 1e-3 && qy > 1e-3) ctx.violation("nonmember_inside_cluster", {}, desc, mcx::fmt("node %d inside nested cluster: ", v) + pos); } }
        if (withSep && rs[0]->getCentreX() + 15 > rs[1]->getCentreX() + 1e-4) ctx.violation("user_constraint_violated", {}, desc, pos);
    }
    for (auto r : rs) delete r; for (auto cc : ccs) delete cc; for (auto u : ux) delete u; for (auto u : uy) delete u; delete root;
}
static void c08_phase(int n, int hier, double pad, int exempt, bool withSep, int szStep) {
    for (unsigned m : EXG[exempt]) if ((int)m >= n) return;
    ctx.phase(mcx::fmt("C08 n=%d hierarchy#%d pad=%g exempt=%d sep=%d all 3^%d placements x sizes", n, hier, pad, exempt, withSep, 2 * n));
    int tot = 1; for (int i = 0; i < 2 * n; i++) tot *= 3;
    for (int code = 0; code < tot && !ctx.stopped(); code++) for (int sz = 0; sz < (1 << n); sz += szStep) { if (!ctx.next()) continue; ctx.count("states");
        // non-trivial: some pair overlaps initially
        { int c = code; double G2[3] = {0, 15, 40}; vector<double> xs, ys; for (int i = 0; i < n; i++) { xs.push_back(G2[c % 3]); c /= 3; ys.push_back(G2[c % 3]); c /= 3; } bool ov = false; for (int i = 0; i < n; i++) for (int j = i + 1; j < n; j++) if (fabs(xs[i] - xs[j]) < 20 && fabs(ys[i] - ys[j]) < 20) ov = true; if (ov) ctx.count("nontrivial"); }
        ctx.sample(mcx::fmt("placement code %d sizes %d", code, sz), 1); c08_case(n, code, sz, hier, pad, exempt, withSep); ctx.done_case(); }
}



// ---- C07, histories on the SAME constraint objects ----------------------------------------------------------------------
// makeFeasible / run / the user dragging nodes / a new layout object over the same rectangles and the same CompoundConstraint objects,
// every sequence to the depth bound that ends with a layout call; after EVERY makeFeasible() and run() each user constraint must hold
// (1e-4) or be reported (lists; for makeFeasible also SubConstraintInfo::satisfied == false).
static void c07_history_case(const vector<Tpl> &T, int a, int b, int n, int code, const vector<int> &ops) {
    static const char *ON[] = {"makeFeasible", "run", "drag(node0->(60,60),node1->(0,0))", "drag(node1->(5,5),node2->(5,5))", "new layout object", "change the separations through setSeparation()"};
    vpsc::Rectangles rs; int c = code; VD x0, y0;
    for (int i = 0; i < n; i++) { double x = GRID[c % 3]; c /= 3; double y = GRID[c % 3]; c /= 3; rs.push_back(new vpsc::Rectangle(x - 10, x + 10, y - 10, y + 10)); x0.push_back(x); y0.push_back(y); }
    vector<Edge> es; for (int i = 0; i + 1 < n; i++) es.push_back(Edge(i, i + 1));
    CompoundConstraints ccs; vector<CompoundConstraint *> extra, mine[2]; vector<int> used = {a}; if (b != a) used.push_back(b);
    for (size_t k = 0; k < used.size(); k++) { size_t e0 = extra.size(); CompoundConstraint *cc = T[used[k]].make(rs, extra); ccs.push_back(cc); mine[k].push_back(cc); for (size_t q = e0; q < extra.size(); q++) mine[k].push_back(extra[q]); }
    for (auto e : extra) ccs.insert(ccs.begin(), e);
    string desc = mcx::fmt("history on one set of constraint objects n=%d start:", n); for (int i = 0; i < n; i++) desc += mcx::fmt("(%g,%g)", x0[i], y0[i]);
    desc += " constraints: [" + T[a].name + "]" + (b != a ? " + [" + T[b].name + "]" : "") + " ops:"; for (int o : ops) desc += string(" ") + ON[o];
    ctx.announce(desc); UnsatisfiableConstraintInfos ux, uy; ConstrainedFDLayout *alg = nullptr;
    try {
        alg = new ConstrainedFDLayout(rs, es, 30); alg->setConstraints(ccs); alg->setUnsatisfiableConstraintInfo(&ux, &uy);
        for (size_t k = 0; k < ops.size(); k++) {
            int o = ops[k];
            if (o == 2) { rs[0]->moveCentre(60, 60); rs[1]->moveCentre(0, 0); }
            else if (o == 3) { rs[1]->moveCentre(5, 5); if (n > 2) rs[2]->moveCentre(5, 5); }
            else if (o == 5) { for (size_t q = 0; q < used.size(); q++) if (T[used[q]].edit) T[used[q]].edit(mine[q][0]); }
            else if (o == 4) { delete alg; alg = new ConstrainedFDLayout(rs, es, 30); alg->setConstraints(ccs); alg->setUnsatisfiableConstraintInfo(&ux, &uy); }
            else {
                for (auto u : ux) delete u; for (auto u : uy) delete u; ux.clear(); uy.clear();
                if (o == 0) alg->makeFeasible(); else alg->run();
                g_mode_makeFeasibleOnly = (o == 0); g_w.assign(n, 20); g_h.assign(n, 20);   // (page boundaries are not evaluated by makeFeasible(); all history nodes are 20x20)
                ctx.count("transitions"); ctx.count("evaluations");
                VD x, y; string pos; for (int i = 0; i < n; i++) { x.push_back(rs[i]->getCentreX()); y.push_back(rs[i]->getCentreY()); pos += mcx::fmt("(%g,%g)", x[i], y[i]); }
                // FixedRelative templates refer to the centres at CONSTRUCTION of the constraint: x0,y0
                for (size_t q = 0; q < used.size(); q++) { double v = T[used[q]].viol(x, y, x0, y0); if (v <= 1e-4) continue;
                    bool excused = false; for (auto *u : ux) for (auto m : mine[q]) if (u->cc == m) excused = true; for (auto *u : uy) for (auto m : mine[q]) if (u->cc == m) excused = true;
                    // makeFeasible() on its own reports through SubConstraintInfo::satisfied; but a SINGLE user constraint (no overlap avoidance) is
                    // always satisfiable, so a flag cannot excuse it (otherwise 'nothing was even tried' would pass as 'everything was reported')
                    if (o == 0 && used.size() > 1) for (auto m : mine[q]) for (auto *sc : m->_subConstraintInfo) if (!sc->satisfied) excused = true;
                    if (excused) ctx.count("violated_and_reported");
                    else ctx.violation(ux.empty() && uy.empty() ? "violated_without_report" : "violated_other_constraint_reported", {"history"}, desc, mcx::fmt("after op #%zu (%s): [%s] violated by %g; reported %zu+%zu; positions ", k, ON[o], T[used[q]].name.c_str(), v, ux.size(), uy.size()) + pos); }
            }
        }
    } catch (vpsc::CriticalFailure &f) { ctx.library_abort(f.what(), desc); } catch (...) { ctx.library_abort("exception", desc); }
    delete alg; for (auto r : rs) delete r; for (auto cc : ccs) delete cc; for (auto u : ux) delete u; for (auto u : uy) delete u;
}
static void c07_history_phase(int depth, int placementStep, int maxPair) {
    vector<Tpl> T = templates(); int n = 3;
    ctx.phase(mcx::fmt("C07 histories depth %d over {makeFeasible, run, drag A, drag B, new layout object, setSeparation (templates with a setter)} on the same constraint objects, every <=%d-subset of %zu templates x every %d-th of 729 placements", depth, maxPair, T.size(), placementStep));
    vector<int> idx(depth, 0);
    do { if (idx[depth - 1] > 1) continue; int lays = 0; for (int o : idx) if (o <= 1) lays++; if (depth > 1 && lays < 2 && idx[0] > 1 && depth == 2) { /* drag/new + one layout: still a history */ }
        bool hasEdit = false; for (int o : idx) if (o == 5) hasEdit = true;
        for (size_t a = 0; a < T.size(); a++) for (size_t b = a; b < T.size(); b++) { if (maxPair == 1 && b != a) continue; if (T[a].maxNode >= n || T[b].maxNode >= n) continue; if (hasEdit && !T[a].edit && !T[b].edit) continue;
            for (int code = 0; code < 729; code += placementStep) { if (!ctx.next()) continue; ctx.count("states"); ctx.count("nontrivial"); ctx.sample(mcx::fmt("history [%s]+[%s] code %d", T[a].name.c_str(), T[b].name.c_str(), code), 1); c07_history_case(T, a, b, n, code, idx); ctx.done_case(); }
            if (ctx.stopped()) return; }
    } while (mcx::odo_next(idx, 6) && !ctx.stopped());
}


// ---- C07, ConstrainedMajorizationLayout: the constraint set EDITED between runs of one layout object --------------------------------------------
// The layout keeps a pointer to the caller's constraint vector.  run(); the caller pushes a second constraint onto that vector (or registers a new vector
// with setConstraints); run() again -- after every run each constraint then in force must hold (1e-4) or be reported.  Every ordered pair of templates.
static void c07_cml_edit_case(const vector<Tpl> &T, int a, int b, int code, int how) {
    int n = 3; vpsc::Rectangles rs; int c = code; VD x0, y0;
    for (int i = 0; i < n; i++) { double x = GRID[c % 3]; c /= 3; double y = GRID[c % 3]; c /= 3; rs.push_back(new vpsc::Rectangle(x - 10, x + 10, y - 10, y + 10)); x0.push_back(x); y0.push_back(y); }
    vector<Edge> es; for (int i = 0; i + 1 < n; i++) es.push_back(Edge(i, i + 1));
    CompoundConstraints ccs, ccs2; vector<CompoundConstraint *> extraA, extraB, mine[2];
    CompoundConstraint *ca = T[a].make(rs, extraA); mine[0].push_back(ca); for (auto e : extraA) { mine[0].push_back(e); ccs.push_back(e); } ccs.push_back(ca);
    string desc = mcx::fmt("ConstrainedMajorizationLayout n=3 start:"); for (int i = 0; i < n; i++) desc += mcx::fmt("(%g,%g)", x0[i], y0[i]);
    desc += " constraints: [" + T[a].name + "] run; then " + (how == 0 ? "push onto the registered vector" : "setConstraints(a new vector with both)") + ": [" + T[b].name + "] run";
    ctx.announce(desc); UnsatisfiableConstraintInfos ux, uy; g_mode_makeFeasibleOnly = false; g_w.assign(n, 20); g_h.assign(n, 20); VD xb0, yb0;
    auto judge = [&](int upto, const char *when) { VD x, y; string pos; for (int i = 0; i < n; i++) { x.push_back(rs[i]->getCentreX()); y.push_back(rs[i]->getCentreY()); pos += mcx::fmt("(%g,%g)", x[i], y[i]); }
        ctx.count("transitions"); ctx.count("evaluations");
        for (int q = 0; q <= upto; q++) { double v = q ? T[b].viol(x, y, xb0, yb0) : T[a].viol(x, y, x0, y0); if (v <= 1e-4) continue;   // (FixedRelative refers to the centres at ITS construction)
            bool excused = false; for (auto *lst : {&ux, &uy}) for (auto *u : *lst) for (auto m : mine[q]) if (u->cc == m) excused = true;
            if (excused) ctx.count("violated_and_reported"); else ctx.violation(ux.empty() && uy.empty() ? "violated_without_report" : "violated_other_constraint_reported", {"cml_edit_history"}, desc, mcx::fmt("%s: [%s] violated by %g; reported %zu+%zu; positions ", when, T[q ? b : a].name.c_str(), v, ux.size(), uy.size()) + pos); } };
    try {
        ConstrainedMajorizationLayout alg(rs, es, nullptr, 30); alg.setConstraints(&ccs); alg.setUnsatisfiableConstraintInfo(&ux, &uy);
        alg.run(); judge(0, "after the first run");
        for (auto u : ux) delete u; for (auto u : uy) delete u; ux.clear(); uy.clear();
        xb0.clear(); yb0.clear(); for (int i = 0; i < n; i++) { xb0.push_back(rs[i]->getCentreX()); yb0.push_back(rs[i]->getCentreY()); }
        CompoundConstraint *cb = T[b].make(rs, extraB); mine[1].push_back(cb); for (auto e : extraB) mine[1].push_back(e);
        if (how == 0) { for (auto e : extraB) ccs.push_back(e); ccs.push_back(cb); }
        else { ccs2 = ccs; for (auto e : extraB) ccs2.push_back(e); ccs2.push_back(cb); alg.setConstraints(&ccs2); }
        alg.run(); judge(1, "after the second run");
    } catch (vpsc::CriticalFailure &f) { ctx.library_abort(f.what(), desc); } catch (...) { ctx.library_abort("exception", desc); }
    for (auto r : rs) delete r; for (int q = 0; q < 2; q++) for (auto m : mine[q]) delete m; for (auto u : ux) delete u; for (auto u : uy) delete u;
}
static void c07_cml_edit_phase(int placementStep) {
    vector<Tpl> T = templates();
    ctx.phase(mcx::fmt("C07 ConstrainedMajorizationLayout: run, edit the constraint set (push / new vector), run again: every ordered pair of templates x every %d-th of 729 placements", placementStep));
    for (size_t a = 0; a < T.size(); a++) for (size_t b = 0; b < T.size(); b++) { if (a == b || T[a].maxNode >= 3 || T[b].maxNode >= 3) continue; if (T[a].name.find("fixedPosition") != string::npos || T[b].name.find("fixedPosition") != string::npos || T[a].name.find("PageBoundary") == 0 || T[b].name.find("PageBoundary") == 0) continue;
        for (int how = 0; how < 2; how++) for (int code = 0; code < 729; code += placementStep) { if (ctx.stopped()) return; if (!ctx.next()) continue; ctx.count("states"); ctx.count("nontrivial"); ctx.sample(mcx::fmt("cml edit [%s] then [%s] code %d", T[a].name.c_str(), T[b].name.c_str(), code), 1); c07_cml_edit_case(T, a, b, code, how); ctx.done_case(); } }
}

// ---- C08, reconfiguration histories on ONE layout object --------------------------------------------
// The overlap/exemption settings of a ConstrainedFDLayout can be changed between layouts.  Every sequence (to the depth bound) over
// {avoid overlaps with exempt group {0,1}, avoid overlaps with no exemption, with exempt group {1,2}, makeFeasible+run} ending with
// a layout; after EVERY layout the overlap clause is judged against the configuration in force at that moment.
static const int C08_NOPS = 7, C08_LAYOUT = 3;
static void c08_history_case(int n, int code, const vector<int> &ops) {
    vpsc::Rectangles rs; int c = code; string start; double G2[3] = {0, 15, 40};
    for (int i = 0; i < n; i++) { double x = G2[c % 3]; c /= 3; double y = G2[c % 3]; c /= 3; rs.push_back(new vpsc::Rectangle(x - 10, x + 10, y - 10, y + 10)); start += mcx::fmt("(%g,%g)", x, y); }
    vector<Edge> es; for (int i = 0; i + 1 < n; i++) es.push_back(Edge(i, i + 1));
    static const char *ON[] = {"avoid(exempt{0,1})", "avoid()", "avoid(exempt{1,2})", "layout", "clusters{0,1}|{2}", "clusters{0}|{1,2}", "clusters(none)"};
    string desc = mcx::fmt("n=%d start %s history:", n, start.c_str()); for (int o : ops) desc += string(" ") + ON[o];
    ctx.announce(desc); UnsatisfiableConstraintInfos ux, uy; vector<RootCluster *> roots;
    try {
        ConstrainedFDLayout alg(rs, es, 30); alg.setUnsatisfiableConstraintInfo(&ux, &uy);
        bool avoid = false; int ex = -1; vector<vector<int>> groups;   // exempt pair (ex, ex+1) or none; member sets of the cluster hierarchy in force
        for (size_t k = 0; k < ops.size(); k++) {
            int o = ops[k];
            if (o == 0) { alg.setAvoidNodeOverlaps(true, {{0, 1}}); avoid = true; ex = 0; }
            else if (o == 1) { alg.setAvoidNodeOverlaps(true); avoid = true; ex = -1; }
            else if (o == 2) { alg.setAvoidNodeOverlaps(true, {{1, 2}}); avoid = true; ex = 1; }
            else if (o == 4 || o == 5) { RootCluster *root = new RootCluster(); RectangularCluster *a = new RectangularCluster(), *b = new RectangularCluster();
                if (o == 4) { a->addChildNode(0); a->addChildNode(1); b->addChildNode(2); groups = {{0, 1}, {2}}; } else { a->addChildNode(0); b->addChildNode(1); b->addChildNode(2); groups = {{0}, {1, 2}}; }
                root->addChildCluster(a); root->addChildCluster(b); roots.push_back(root); alg.setClusterHierarchy(root); }
            else if (o == 6) { alg.setClusterHierarchy(nullptr); groups.clear(); }
            else {
                for (auto u : ux) delete u; for (auto u : uy) delete u; ux.clear(); uy.clear();
                alg.makeFeasible(); alg.run(); ctx.count("transitions"); ctx.count("evaluations");
                if (!ux.empty() || !uy.empty()) continue;
                string pos; for (int i = 0; i < n; i++) pos += mcx::fmt("[%g,%g]", rs[i]->getCentreX(), rs[i]->getCentreY());
                if (avoid) for (int i = 0; i < n; i++) for (int j = i + 1; j < n; j++) { if (ex >= 0 && i == ex && j == ex + 1) continue;
                    double qx = min(rs[i]->getMaxX(), rs[j]->getMaxX()) - max(rs[i]->getMinX(), rs[j]->getMinX()), qy = min(rs[i]->getMaxY(), rs[j]->getMaxY()) - max(rs[i]->getMinY(), rs[j]->getMinY());
                    if (qx > 1e-3 && qy > 1e-3) ctx.violation("node_overlap", {"history"}, desc, mcx::fmt("after layout #%zu nodes %d,%d (not exempt now) overlap %gx%g: ", k, i, j, qx, qy) + pos); }
                // cluster clauses for the hierarchy in force (the property states them for layouts with overlap avoidance)
                if (avoid && !groups.empty()) {
                    auto bbox = [&](const vector<int> &m, double &x0, double &x1, double &y0, double &y1) { x0 = y0 = 1e18; x1 = y1 = -1e18; for (int v : m) { x0 = min(x0, rs[v]->getMinX()); x1 = max(x1, rs[v]->getMaxX()); y0 = min(y0, rs[v]->getMinY()); y1 = max(y1, rs[v]->getMaxY()); } };
                    double a0, a1, b0, b1, c0, c1, d0, d1; bbox(groups[0], a0, a1, b0, b1); bbox(groups[1], c0, c1, d0, d1);
                    if (min(a1, c1) - max(a0, c0) > 1e-3 && min(b1, d1) - max(b0, d0) > 1e-3) ctx.violation("sibling_clusters_overlap", {"history"}, desc, mcx::fmt("after layout #%zu: ", k) + pos);
                }
            }
        }
    } catch (vpsc::CriticalFailure &f) { ctx.library_abort(f.what(), desc); } catch (...) { ctx.library_abort("exception", desc); }
    for (auto r : rs) delete r; for (auto u : ux) delete u; for (auto u : uy) delete u; for (auto r : roots) delete r;
}
static void c08_history_phase(int n, int depth, int codeStep) {
    ctx.phase(mcx::fmt("C08 reconfiguration histories n=%d depth %d over {avoid(exempt{0,1}), avoid(), avoid(exempt{1,2}), layout, clusters{0,1}|{2}, clusters{0}|{1,2}, clusters(none)}, last op a layout, every %d-th of 3^%d placements", n, depth, codeStep, 2 * n));
    int tot = 1; for (int i = 0; i < 2 * n; i++) tot *= 3;
    vector<int> idx(depth, 0);
    do { if (idx[depth - 1] != C08_LAYOUT) continue; bool useful = false; for (int k = 0; k + 1 < depth; k++) if (idx[k] != C08_LAYOUT) useful = true; if (!useful && depth > 1) continue;
        for (int code = 0; code < tot; code += codeStep) { if (!ctx.next()) continue; ctx.count("states");
            { int c = code; double G2[3] = {0, 15, 40}; vector<double> xs, ys; for (int i = 0; i < n; i++) { xs.push_back(G2[c % 3]); c /= 3; ys.push_back(G2[c % 3]); c /= 3; } bool ov = false; for (int i = 0; i < n; i++) for (int j = i + 1; j < n; j++) if (fabs(xs[i] - xs[j]) < 20 && fabs(ys[i] - ys[j]) < 20) ov = true; if (ov) ctx.count("nontrivial"); }
            ctx.sample(mcx::fmt("history placement code %d", code), 1); c08_history_case(n, code, idx); ctx.done_case(); }
    } while (mcx::odo_next(idx, C08_NOPS) && !ctx.stopped());
}

int main(int argc, char **argv) {
    ctx.init(argc, argv);
    if (!ctx.c15()) freopen("/dev/null", "w", stderr);   // libcola prints diagnostics; under the sanitised build stderr carries the reports
    bool T = ctx.thorough(); string prop = ctx.opt["prop"];
    if (prop == "C07") {
        for (int mode : {0, 1, 2, 4}) c07_phase(3, mode, false, false, mode < 2 ? 7 : 13, 2, 0, 2);
        c07_phase(3, 0, true, false, 13, 2, 5, 2); c07_phase(3, 0, false, true, 13, 3, 0, 2); c07_phase(3, 1, true, false, 29, 0, 2, 2); c07_phase(2, 0, false, false, 1, 1, 0, 2);
        c07_phase(4, 0, false, false, 97, 2, 0, 1);
        c07_phase(3, 4, true, false, 13, 2, 0, 2); c07_phase(3, 4, true, false, 13, 3, 5, 2);
        c07_history_phase(2, 29, 1); c07_history_phase(3, 61, 1); c07_history_phase(2, 121, 2); c07_cml_edit_phase(T ? 13 : 61);   // ConstrainedMajorizationLayout with setAvoidOverlaps()
        if (T) { for (int mode : {0, 1, 2, 4}) c07_phase(3, mode, false, false, 1, 2, 0, 2); c07_phase(3, 0, true, false, 3, 3, 5, 2); c07_phase(3, 0, true, true, 5, 0, 7, 2); c07_phase(4, 0, false, false, 53, 2, 0, 2); c07_phase(4, 1, true, false, 53, 3, 9, 2); }
    } else {
        c08_phase(3, 0, 0, false, false, 1); c08_phase(3, 2, 0, false, false, 1); c08_phase(3, 0, 0, true, false, 1); c08_phase(3, 0, 0, false, true, 1);
        c08_phase(4, 1, 0, false, false, 15); c08_phase(4, 0, 0, false, false, 15); for (int h = 5; h <= 8; h++) c08_phase(4, h, 0, false, false, 15);
        for (int ex = 2; ex <= 5; ex++) { c08_phase(4, 0, 0, ex, false, 15); c08_phase(4, 1, 0, ex, false, 15); } c08_phase(3, 0, 0, 2, false, 1);   // exemption groups whose members are not neighbours in the index order
        for (int h = 9; h <= 12; h++) c08_phase(4, h, 0, false, false, 15);   // clusters that are a node rectangle (RectangularCluster(index)), index 0 and others
        c08_history_phase(3, 2, 1); c08_history_phase(3, 3, 3); c08_history_phase(3, 4, 29);
        if (T) { for (int h = 0; h < 13; h++) for (double pad : {0.0, 5.0}) c08_phase(4, h, pad, false, false, 5); c08_phase(4, 1, 5, true, true, 5); c08_phase(4, 4, 0, false, true, 5); c08_phase(3, 2, 5, true, true, 1); }
    }
    return ctx.finish();
}
