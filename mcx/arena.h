// Owned heap nondeterminism: a replacement for global operator new/delete whose
// address order (ascending / descending), reuse discipline (none / LIFO / FIFO) and
// fill pattern are explorer choices.  Include in exactly one TU of a harness.
//
//   mcx::heap_begin(dir, reuse, fill)   start a schedule (dir 0 = system malloc)
//   mcx::heap_end()                     back to system malloc; arena is recycled
//   mcx::heap_live()                    live arena allocations (leak oracle)
#pragma once
#include <cstdlib>
#include <cstring>
#include <cstdio>
#include <new>
#include <sys/mman.h>
#if defined(__SANITIZE_ADDRESS__)
#include <sanitizer/asan_interface.h>
#define MCX_POISON(p, n) __asan_poison_memory_region((p), (n))
#define MCX_UNPOISON(p, n) __asan_unpoison_memory_region((p), (n))
#else
#define MCX_POISON(p, n) ((void)0)
#define MCX_UNPOISON(p, n) ((void)0)
#endif

namespace mcx {
enum { HEAP_SYSTEM = 0, HEAP_UP = 1, HEAP_DOWN = 2 };
enum { REUSE_NONE = 0, REUSE_LIFO = 1, REUSE_FIFO = 2 };
struct ArenaState {
    char *base = nullptr; size_t cap = 0;
    size_t up = 0, down = 0;
    int dir = 0, reuse = 0; int fill = -1;     // fill: -1 none, 0..255 byte value, 256.. every 8 bytes an ordinary double (2.75, 1000, -7.5)
    long live = 0, total = 0; size_t live_bytes = 0;
    struct Free { Free *next; };
    Free *head[257]; Free *tail[257];
};
static ArenaState A;
struct Hdr { size_t size; size_t magic; };
static const size_t MAGIC = 0x6d63784152454e41ull;
static const size_t RZ = 16;

inline void arena_init() {
    if (A.base) return;
    A.cap = (size_t)6 << 30;
    A.base = (char *)mmap(nullptr, A.cap, PROT_READ | PROT_WRITE, MAP_PRIVATE | MAP_ANONYMOUS | MAP_NORESERVE, -1, 0);
    if (A.base == MAP_FAILED) { perror("arena mmap"); _exit(3); }
}
inline void heap_begin(int dir, int reuse = REUSE_NONE, int fill = -1) {
    arena_init();
    size_t used_hi = A.down, used_lo = A.up;
    MCX_UNPOISON(A.base, used_lo); MCX_UNPOISON(A.base + A.cap - used_hi, used_hi);
    if (used_lo > (64u << 20)) madvise(A.base, used_lo, MADV_DONTNEED);
    if (used_hi > (64u << 20)) madvise(A.base + A.cap - used_hi, used_hi, MADV_DONTNEED);
    A.up = A.down = 0; A.dir = dir; A.reuse = reuse; A.fill = fill; A.live = 0; A.total = 0; A.live_bytes = 0;
    memset(A.head, 0, sizeof A.head); memset(A.tail, 0, sizeof A.tail);
}
inline void heap_end() { A.dir = 0; }
inline long heap_live() { return A.live; }
inline long heap_total() { return A.total; }
inline bool in_arena(void *p) { return A.base && (char *)p >= A.base && (char *)p < A.base + A.cap; }

inline void *arena_alloc(size_t n) {
    n = (n + 15) & ~size_t(15); if (n == 0) n = 16;
    size_t cls = n / 16;
    char *blk = nullptr;
    if (A.reuse != REUSE_NONE && cls <= 256 && A.head[cls]) {
        ArenaState::Free *f = A.head[cls];
        MCX_UNPOISON(f, n);
        A.head[cls] = f->next; if (!A.head[cls]) A.tail[cls] = nullptr;
        blk = (char *)f;
    } else {
        size_t tot = n + sizeof(Hdr) + RZ;
        if (A.up + A.down + tot > A.cap) { fprintf(stderr, "mcx arena exhausted\n"); _exit(3); }
        char *raw;
        if (A.dir == HEAP_UP) { raw = A.base + A.up; A.up += tot; }
        else { A.down += tot; raw = A.base + A.cap - A.down; }
        Hdr *h = (Hdr *)raw; h->size = n; h->magic = MAGIC;
        blk = raw + sizeof(Hdr);
        MCX_POISON(raw, sizeof(Hdr)); MCX_POISON(blk + n, RZ);
    }
    if (A.fill >= 256) { static const double PAT[3] = {2.75, 1000.0, -7.5}; double v = PAT[(A.fill - 256) % 3]; size_t k = 0; for (; k + sizeof(double) <= n; k += sizeof(double)) memcpy(blk + k, &v, sizeof(double)); if (k < n) memset(blk + k, 0x40, n - k); }   // "dirty" memory that reads as an ordinary double (what a recycled block of doubles looks like)
    else if (A.fill >= 0) memset(blk, A.fill, n);
    A.live++; A.total++; A.live_bytes += n;
    return blk;
}
inline void arena_free(void *p) {
    char *blk = (char *)p; Hdr *h = (Hdr *)(blk - sizeof(Hdr));
    MCX_UNPOISON(h, sizeof(Hdr));
    size_t n = h->size; bool ok = h->magic == MAGIC;
    MCX_POISON(h, sizeof(Hdr));
    if (!ok) { fprintf(stderr, "mcx arena: bad free %p\n", p); abort(); }
    A.live--; A.live_bytes -= n;
    size_t cls = n / 16;
    if (A.dir != 0 && A.reuse != REUSE_NONE && cls <= 256) {
        ArenaState::Free *f = (ArenaState::Free *)blk;
        if (A.reuse == REUSE_LIFO) { f->next = A.head[cls]; A.head[cls] = f; if (!A.tail[cls]) A.tail[cls] = f; }
        else { f->next = nullptr; if (A.tail[cls]) { MCX_UNPOISON(A.tail[cls], 16); A.tail[cls]->next = f; MCX_POISON(A.tail[cls], 16); } else A.head[cls] = f; A.tail[cls] = f; }
    }
    MCX_POISON(blk, n);
}
} // namespace mcx

namespace mcx { static long sys_live = 0; inline long heap_live_system() { return sys_live; } }
void *operator new(size_t n) {
    if (mcx::A.dir == 0) { void *p = malloc(n ? n : 1); if (!p) throw std::bad_alloc(); mcx::sys_live++; return p; }
    return mcx::arena_alloc(n);
}
void operator delete(void *p) noexcept {
    if (!p) return;
    if (mcx::in_arena(p)) { mcx::arena_free(p); return; }
    mcx::sys_live--;
    free(p);
}
void operator delete(void *p, size_t) noexcept { operator delete(p); }
void *operator new[](size_t n) { return operator new(n); }
void operator delete[](void *p) noexcept { operator delete(p); }
void operator delete[](void *p, size_t) noexcept { operator delete(p); }
