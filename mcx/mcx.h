// mcx -- tiny explicit-enumeration explorer core (header only).
//
// A harness enumerates a finite space of cases (inputs x options x operation histories
// x heap schedules) in a fixed deterministic order.  Every case gets a global index.
// With --shard i/N a process executes only the cases whose index % N == i, so 16
// processes cover the space exactly once.  The current index is mirrored into a
// shared page (--progress) so the parent can attribute a crash or timeout to one case
// and restart the shard after it (--resume-after K).  --only K executes exactly one
// case (replay).  Everything a run learns is written as JSON lines to --out.
#pragma once
#include <cstdio>
#include <cstdlib>
#include <cstring>
#include <cstdint>
#include <cstdarg>
#include <string>
#include <vector>
#include <map>
#include <set>
#include <functional>
#include <sstream>
#include <unistd.h>
#include <signal.h>
#include <fcntl.h>
#include <sys/mman.h>
#include <sys/time.h>
#include <time.h>

namespace mcx {

inline std::string jesc(const std::string &s) {
    std::string o;
    for (unsigned char c : s) {
        if (c == '"' || c == '\\') { o += '\\'; o += c; }
        else if (c == '\n') o += "\\n";
        else if (c < 0x20) { char b[8]; snprintf(b, 8, "\\u%04x", c); o += b; }
        else o += c;
    }
    return o;
}
inline std::string fmt(const char *f, ...) __attribute__((format(printf, 1, 2)));
inline std::string fmt(const char *f, ...) {
    char buf[4096]; va_list ap; va_start(ap, f); vsnprintf(buf, sizeof buf, f, ap); va_end(ap); return buf;
}
inline std::string num(double v) { char b[40]; snprintf(b, 40, "%.17g", v); return b; }
inline std::string g(double v) { char b[40]; snprintf(b, 40, "%g", v); return b; }

struct Progress { volatile long cur; volatile long flag; char phase[100]; };

struct Ctx;
static Ctx *g_ctx = nullptr;

struct Ctx {
    std::string tier = "quick";
    int shard = 0, nshards = 1;
    long resume_after = -1, only = -1;
    double deadline = 0;       // epoch seconds, 0 = none
    double phase_slice = 0;    // seconds each phase may use before the explorer moves on to the next phase (0 = no slicing); used by the sanitised replays so that
                               // a short deadline is spread over ALL phases (each explored smallest-first for its slice) instead of being spent on the first ones
    double phase_t0 = 0; bool phase_cut = false;
    int case_limit_s = 20;     // per-case CPU horizon
    FILE *out = stdout;
    Progress *prog = nullptr;
    Progress local_prog;
    long seed = 0;
    std::map<std::string, std::string> opt;   // harness-specific --key value

    long idx = -1;             // global case index of the case being considered
    long executed = 0;
    bool stopped_ = false;
    std::string phase_ = "";
    long phase_first = 0, phase_exec = 0;
    struct PhaseInfo { long first, cases, executed; bool complete; };
    std::vector<std::pair<std::string, PhaseInfo>> phases_done;
    double last_ckpt = 0;
    std::map<std::string, long> cnt;
    std::map<std::string, std::set<std::string>> classes;
    std::map<std::string, int> samples_per_phase;
    std::map<std::string, long> viol_written;
    long viol_total = 0;
    long viol_cap = 25;          // stored example records per (clause, classes) and worker; counters are always exact
    unsigned check_ctr = 0;

    // A case that is expected to be able to hang (an input class with a recorded non-termination finding) is "armed": the violation
    // record is formatted in advance, and the alarm handler only write(2)s it (async-signal-safe) and leaves with exit code 98,
    // which the parent treats as "judged, restart after this case" instead of as an unexplained abort.
    char armed_buf[6000]; volatile int armed_len = 0;
    void arm_timeout(const std::string &clause, const std::vector<std::string> &cls_, const std::string &desc, int seconds) {
        if (clause.empty()) { armed_len = -1; cnt["armed_without_verdict"]++; write_stat(false); alarm(seconds); alarm_on = true; return; }   // only cut the case short (the verdict belongs to C15)
        std::string cl = "[";
        for (size_t i = 0; i < cls_.size(); i++) cl += (i ? ",\"" : "\"") + jesc(cls_[i]) + "\"";
        cl += "]";
        int n = snprintf(armed_buf, sizeof armed_buf, "{\"t\":\"viol\",\"phase\":\"%s\",\"case\":%ld,\"clause\":\"%s\",\"classes\":%s,\"desc\":\"%s\",\"observed\":\"no return within %d s of CPU-bound execution\"}\n",
                         jesc(phase_).c_str(), idx, jesc(clause).c_str(), cl.c_str(), jesc(desc.substr(0, 1500)).c_str(), seconds);
        write_stat(false);   // an armed exit must not lose the counters gathered since the last checkpoint
        fflush(out); armed_len = n < (int)sizeof armed_buf ? n : 0;
        alarm(seconds); alarm_on = true;
    }
    void disarm() { armed_len = 0; alarm(case_limit_s); alarm_on = true; }
    static void on_alarm(int) {
        if (g_ctx && g_ctx->prog) g_ctx->prog->flag = 1;
        if (g_ctx && g_ctx->armed_len > 0) { ssize_t w = write(fileno(g_ctx->out), g_ctx->armed_buf, g_ctx->armed_len); (void)w; _exit(98); }
        if (g_ctx && g_ctx->armed_len < 0) _exit(98);
        _exit(97);
    }

    void init(int argc, char **argv) {
        g_ctx = this;
        prog = &local_prog; memset(&local_prog, 0, sizeof local_prog);
        for (int i = 1; i < argc; i++) {
            std::string a = argv[i];
            auto val = [&]() { return std::string(i + 1 < argc ? argv[++i] : ""); };
            if (a == "--tier") tier = val();
            else if (a == "--shard") { std::string v = val(); sscanf(v.c_str(), "%d/%d", &shard, &nshards); }
            else if (a == "--resume-after") resume_after = atol(val().c_str());
            else if (a == "--only") only = atol(val().c_str());
            else if (a == "--deadline") deadline = atof(val().c_str());
            else if (a == "--phase-slice") phase_slice = atof(val().c_str());
            else if (a == "--case-limit") case_limit_s = atoi(val().c_str());
            else if (a == "--seed") seed = atol(val().c_str());
            else if (a == "--out") { std::string p = val(); out = fopen(p.c_str(), "a"); if (!out) { perror("out"); exit(3); } }
            else if (a == "--progress") {
                std::string p = val(); int fd = open(p.c_str(), O_RDWR | O_CREAT, 0644);
                if (fd < 0 || ftruncate(fd, sizeof(Progress)) != 0) { perror("progress"); exit(3); }
                void *m = mmap(nullptr, sizeof(Progress), PROT_READ | PROT_WRITE, MAP_SHARED, fd, 0);
                if (m == MAP_FAILED) { perror("mmap"); exit(3); }
                prog = (Progress *)m; close(fd);
            } else if (a.size() > 2 && a[0] == '-' && a[1] == '-') { std::string k = a.substr(2); opt[k] = val(); }
            else { fprintf(stderr, "mcx: unknown arg %s\n", a.c_str()); exit(3); }
        }
        prog->cur = -1; prog->flag = 0;
        signal(SIGALRM, on_alarm);
    }
    bool thorough() const { return tier == "thorough"; }
    bool replaying() const { return only >= 0; }

    bool phase_on = true;   // development aid: --phases <substring> executes only the phases whose name contains it
    void phase(const std::string &name) {
        end_phase(); phase_on = !opt.count("phases") || name.find(opt["phases"]) != std::string::npos;
        phase_ = name; phase_first = idx + 1; phase_exec = 0; phase_cut = false;
        if (phase_slice > 0) { struct timeval tv; gettimeofday(&tv, nullptr); phase_t0 = tv.tv_sec + tv.tv_usec * 1e-6; }
        strncpy(prog->phase, name.c_str(), sizeof(prog->phase) - 1);
    }
    void end_phase() {
        if (phase_.empty()) return;
        phases_done.push_back({phase_, PhaseInfo{phase_first, idx + 1 - phase_first, phase_exec, !stopped_ && !phase_cut}});
        phase_.clear();
    }
    bool stopped() {
        if (stopped_) return true;
        if (only >= 0 && idx >= only) { stopped_ = true; return true; }
        if (deadline > 0 && (++check_ctr & 63) == 0) {
            struct timeval tv; gettimeofday(&tv, nullptr);
            if (tv.tv_sec + tv.tv_usec * 1e-6 > deadline) { stopped_ = true; cnt["deadline_hit"] = 1; }
        }
        return stopped_;
    }
    // advance to the next case; true iff this process must execute it
    bool alarm_on = false;
    bool next() {
        if (alarm_on) { alarm(0); alarm_on = false; } armed_len = 0;   // (no system call for the cases of other shards)
        if (stopped()) return false;
        idx++;
        if (phase_slice > 0 && only < 0) { if (phase_cut) return false; if ((idx & 15) == 0) { struct timeval tv; gettimeofday(&tv, nullptr); if (tv.tv_sec + tv.tv_usec * 1e-6 > phase_t0 + phase_slice) { phase_cut = true; cnt["phase_slices_used_up"]++; return false; } } }
        bool mine;
        if (only >= 0) mine = (idx == only);
        else mine = (idx % nshards == shard) && idx > resume_after && phase_on;
        if (!mine) return false;
        prog->cur = idx;
        executed++; phase_exec++;
        if ((executed & 15) == 0 && only < 0) {
            struct timeval tv; gettimeofday(&tv, nullptr); double now = tv.tv_sec + tv.tv_usec * 1e-6;
            if (now - last_ckpt > 0.1) { last_ckpt = now; write_stat(false); }
        }
        alarm(case_limit_s); alarm_on = true;
        return true;
    }
    void done_case() { armed_len = 0; if (alarm_on) { alarm(0); alarm_on = false; } }

    // when replaying a single case, say what it is before executing it (so that a hang or crash is still described)
    void announce(const std::string &desc) { if (only >= 0) { fprintf(out, "{\"t\":\"case\",\"case\":%ld,\"desc\":\"%s\"}\n", idx, jesc(desc).c_str()); fflush(out); } }
    void count(const std::string &k, long n = 1) { cnt[k] += n; }
    void cls(const std::string &group, const std::string &v) { auto &s = classes[group]; if (s.size() < 400) s.insert(v); }
    void sample(const std::string &desc, int per_phase = 2) {
        if (samples_per_phase[phase_]++ < per_phase)
            fprintf(out, "{\"t\":\"sample\",\"phase\":\"%s\",\"case\":%ld,\"desc\":\"%s\"}\n", jesc(phase_).c_str(), idx, jesc(desc).c_str());
    }
    // report a property violation for the current case
    // --c15 1 : the harness is being run (sanitised) for property C15: functional verdicts are muted, and every
    // library assertion / unexpected exception becomes a violation identified by its call site
    bool c15() const { return opt.count("c15") > 0; }
    // call-site signature of a failed library assertion: expression, file and enclosing function -- NOT the line number,
    // which moves whenever an unrelated line is added above it (that made KF-C15-1 fire as an alarm after fix 07e9573)
    static std::string assert_sig(const std::string &what) {
        size_t e = what.find("expression: "), l = what.find("at line "), f = what.find(" of ", l == std::string::npos ? 0 : l);
        if (e == std::string::npos || l == std::string::npos || f == std::string::npos) { std::string t = what.substr(0, 140), o; for (size_t i = 0; i < t.size(); i++) { if (isdigit((unsigned char)t[i])) { if (o.empty() || o.back() != '#') o += '#'; } else o += t[i]; } return o; }   // (an exception text: numbers -- node ids -- are not part of the site)
        std::string expr = what.substr(e + 12, what.find('\n', e) - e - 12), file = what.substr(f + 4, what.find('\n', f) - f - 4);
        size_t sl = file.rfind('/'); if (sl != std::string::npos) file = file.substr(sl + 1);
        std::string fn = "?";
        size_t in = what.find("in: ");
        if (in != std::string::npos) {
            std::string sigl = what.substr(in + 4, what.find('\n', in) - in - 4);
            size_t par = sigl.find('('); if (par != std::string::npos) sigl = sigl.substr(0, par);
            size_t sp = sigl.rfind(' '); fn = sp == std::string::npos ? sigl : sigl.substr(sp + 1);
            while (!fn.empty() && (fn[0] == '*' || fn[0] == '&')) fn = fn.substr(1);
        }
        return expr.substr(0, 110) + " @ " + file + " in " + fn;
    }
    void library_abort(const std::string &what, const std::string &desc, const std::vector<std::string> &inputClasses = {}) {
        std::string sig = assert_sig(what);
        cnt["aborted_by_assert"]++; cls("abort", sig);
        std::vector<std::string> cl{"site:" + sig}; for (auto &c : inputClasses) { cl.push_back(c); cl.push_back("site:" + sig + " & " + c); }   // (site & input class: a finding can be tied to both)
        if (c15()) raw_violation("assertion_failed", cl, desc, what.substr(0, 400));
        // In the functional checks a failed library assertion on an input of the property's alphabet means that no result was delivered: it is a violation of that
        // property as well (clause library_assertion, class = the assertion's call site, so that the known sites of C15's findings can be listed per property).
        else raw_violation("library_assertion", cl, desc, what.substr(0, 400));
    }
    void violation(const std::string &clause, const std::vector<std::string> &cls_, const std::string &desc,
                   const std::string &observed = "") {
        if (c15()) { cnt["muted_functional_verdicts"]++; return; }
        raw_violation(clause, cls_, desc, observed);
    }
    void raw_violation(const std::string &clause, const std::vector<std::string> &cls_, const std::string &desc,
                   const std::string &observed = "") {
        viol_total++;
        std::string key = clause; for (auto &c : cls_) key += "|" + c;
        cnt["viol:" + key]++;
        if (viol_written[key]++ >= viol_cap && only < 0) return;
        std::string cl = "[";
        for (size_t i = 0; i < cls_.size(); i++) cl += (i ? ",\"" : "\"") + jesc(cls_[i]) + "\"";
        cl += "]";
        fprintf(out, "{\"t\":\"viol\",\"phase\":\"%s\",\"case\":%ld,\"clause\":\"%s\",\"classes\":%s,\"desc\":\"%s\",\"observed\":\"%s\"}\n",
                jesc(phase_).c_str(), idx, jesc(clause).c_str(), cl.c_str(), jesc(desc).c_str(), jesc(observed).c_str());
        fflush(out);
    }
    // cumulative state of THIS process; the merger keeps the last line per pid, so a crashed process still
    // contributes everything up to its last checkpoint
    void write_stat(bool final) {
        fprintf(out, "{\"t\":\"stat\",\"pid\":%d,\"final\":%s,\"executed\":%ld,\"enumerated\":%ld,\"stopped\":%s,\"cnt\":{", (int)getpid(), final ? "true" : "false",
                executed, idx + 1, (stopped_ && only < 0) ? "true" : "false");
        bool first = true;
        for (auto &kv : cnt) { fprintf(out, "%s\"%s\":%ld", first ? "" : ",", jesc(kv.first).c_str(), kv.second); first = false; }
        fprintf(out, "},\"classes\":{");
        first = true;
        for (auto &kv : classes) {
            fprintf(out, "%s\"%s\":[", first ? "" : ",", jesc(kv.first).c_str()); first = false;
            bool f2 = true;
            for (auto &v : kv.second) { fprintf(out, "%s\"%s\"", f2 ? "" : ",", jesc(v).c_str()); f2 = false; }
            fprintf(out, "]");
        }
        fprintf(out, "},\"phases\":[");
        first = true;
        auto emit = [&](const std::string &n, const PhaseInfo &p) {
            fprintf(out, "%s{\"name\":\"%s\",\"first\":%ld,\"cases\":%ld,\"executed\":%ld,\"complete\":%s}", first ? "" : ",", jesc(n).c_str(), p.first, p.cases, p.executed, p.complete ? "true" : "false");
            first = false; };
        for (auto &p : phases_done) emit(p.first, p.second);
        if (!phase_.empty()) emit(phase_, PhaseInfo{phase_first, idx + 1 - phase_first, phase_exec, false});
        fprintf(out, "]}\n");
        fflush(out);
    }
    int finish() {
        alarm(0);
        end_phase();
        write_stat(true);
        if (out != stdout) fclose(out);
        prog->cur = -2;
        return 0;
    }
};

// ---- small enumerators -------------------------------------------------------------

// odometer over a mixed-radix vector; returns false when wrapped
inline bool odo_next(std::vector<int> &d, const std::vector<int> &radix) {
    for (int k = (int)d.size() - 1; k >= 0; k--) { if (++d[k] < radix[k]) return true; d[k] = 0; }
    return false;
}
inline bool odo_next(std::vector<int> &d, int radix) {
    for (int k = (int)d.size() - 1; k >= 0; k--) { if (++d[k] < radix) return true; d[k] = 0; }
    return false;
}
// multisets (non-decreasing index vectors) of size exactly m over [0,A)
inline bool multiset_next(std::vector<int> &d, int A) {
    int m = d.size();
    for (int k = m - 1; k >= 0; k--) if (d[k] + 1 < A) { int v = d[k] + 1; for (int j = k; j < m; j++) d[j] = v; return true; }
    return false;
}
// k-subsets (strictly increasing) of [0,A); init with 0,1,..,k-1
inline bool subset_next(std::vector<int> &d, int A) {
    int k = d.size();
    for (int i = k - 1; i >= 0; i--) if (d[i] < A - k + i) { d[i]++; for (int j = i + 1; j < k; j++) d[j] = d[j - 1] + 1; return true; }
    return false;
}

} // namespace mcx
