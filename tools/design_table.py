#!/usr/bin/env python3
"""Regenerate the per-property summary table of DESIGN.md section 4 from evidence/*.json (run after the quick checks have refreshed the evidence)."""
import json, glob, os, re
VERIF = os.path.dirname(os.path.dirname(os.path.abspath(__file__)))
rows = ["| prop | quick tier: cases executed (non-trivial) | states / transitions | phases | wall | known findings hit |", "|---|---|---|---|---|---|"]
for f in sorted(glob.glob(os.path.join(VERIF, "evidence", "C*.json"))):
    e = json.load(open(f)); c = e["coverage"]; parts = c.get("parts", {})
    ex = sum(p.get("executed", 0) for p in parts.values()); nt = c.get("distinct_nontrivial", 0)
    ph = sum(len(p.get("phases", {})) for p in parts.values())
    kf = sorted(set(k.get("id", "?") for k in e.get("known_findings", []))) if isinstance(e.get("known_findings"), list) else []
    if not kf: kf = sorted(set(re.findall(r"KF-C\d+-\w+", json.dumps(e))))
    rows.append("| %s | %s (%s) | %s / %s | %d | %.0f s | %s |" % (e["property_id"], f"{ex:,}", f"{nt:,}", f"{c.get('states', 0):,}", f"{c.get('transitions', 0):,}", ph, e.get("wall_s", 0), " ".join(kf) or "–"))
table = "\n".join(rows)
p = os.path.join(VERIF, "DESIGN.md"); s = open(p).read()
a = s.index("| prop | quick"); b = s.index("\n\n", a)
open(p, "w").write(s[:a] + table + s[b:])
print(table)
