#!/bin/bash
# maintenance aid: re-run every seeded change against the quick tier of the property it was written for (scratch copies only)
for d in seeded/*/; do
  id=$(basename $d); prop=$(python3 -c "import json;print(json.load(open('$d/meta.json'))['breaks_property'])")
  props=$prop
  case $id in C03-newblocking-endpoint-flag) props=C06;; C14-treeflip-bounds-inplace) props=C19;; esac
  out=$(python3 tools/trial.py $d/patch.diff $props 2>&1); rc=$?
  echo "$id [$props] detected=$([ $rc -eq 0 ] && echo yes || echo NO) $(echo "$out" | grep -c VIOLATION) $(echo "$out" | grep -E 'PATCH FAILED|MACHINERY' | head -1)"
done
