#!/bin/bash
# maintenance aid: re-run every seeded change against the quick tier of the property it was written for (scratch copies only)
for d in seeded/*/; do
  id=$(basename $d); prop=$(python3 -c "import json;print(json.load(open('$d/meta.json'))['breaks_property'])")
  props=$prop
  # seeds whose trigger lies outside the quantifier of the property they were written for are reported by the property that owns it (see seeded/README.md)
  case $id in C03-newblocking-endpoint-flag|C03-contains-counts-border-on-shape-add|C04-blocker-id-kept-when-reblocked|C04-reroute-scan-stops-at-first-marked-connector) props=C06;; C14-treeflip-bounds-inplace) props=C19;; C05-astar-push-heap-on-decrease) props=C04;; C02-avoid-mostviolated-tolerance-mismatch|C09-refine-heaps-built-once) props=C01;; esac
  if python3 -c "import json,sys;sys.exit(0 if 'neutralised_by_fix' in json.load(open('$d/meta.json')) else 1)"; then echo "$id [$props] neutralised by a later fix: (see meta.json)"; continue; fi
  out=$(python3 tools/trial.py $d/patch.diff $props 2>&1); rc=$?
  echo "$id [$props] detected=$([ $rc -eq 0 ] && echo yes || echo NO) $(echo "$out" | grep -c VIOLATION) $(echo "$out" | grep -E 'PATCH FAILED|MACHINERY' | head -1)"
done
