#!/usr/bin/env python3
"""Hash-driven rebuild of the five adaptagrams libraries from $VERIF_REPO (default /repo).

usage: tools/build.py <variant> [<variant> ...]      variants: chk san
       tools/build.py --harness <variant> <harness.cpp> [extra flags...]   -> prints path of binary

Objects are recompiled when sha1(source)+sha1(all library headers)+flags differs from
the stamp stored next to the object.  Nothing from /repo's autotools build is used.
"""
import hashlib, os, subprocess, sys, glob, concurrent.futures, time, fcntl

VERIF = os.path.dirname(os.path.dirname(os.path.abspath(__file__)))
REPO = os.environ.get("VERIF_REPO", "/repo")
COLA = os.path.join(REPO, "cola")
LIBS = ["libvpsc", "libavoid", "libcola", "libtopology", "libdialect"]
CXX = os.environ.get("VERIF_CXX", "g++")

COMMON = ["-std=gnu++11", "-w", "-I" + COLA, "-DUSE_ASSERT_EXCEPTIONS", "-fno-var-tracking-assignments"]
VARIANTS = {
    "chk": ["-O1", "-g1"],
    "cov": ["-O0", "-g1", "--coverage"],   # development aid (tools/coverage.sh): which library lines do the quick tiers execute?
    "san": ["-O1", "-g1", "-fsanitize=address,undefined", "-fno-sanitize-recover=undefined",
            "-fno-omit-frame-pointer", "-ftrivial-auto-var-init=pattern"],
}
HARNESS_FLAGS = ["-std=gnu++17", "-w", "-fno-access-control", "-I" + COLA, "-I" + VERIF,
                 "-DUSE_ASSERT_EXCEPTIONS", "-fno-var-tracking-assignments"]


def build_root():
    tag = "" if REPO == "/repo" else "-alt-" + hashlib.sha1(REPO.encode()).hexdigest()[:10]
    return os.path.join(os.environ.get("VERIF_BUILD", os.path.join(VERIF, "build")) + tag)


def sha(paths, extra=""):
    h = hashlib.sha1(extra.encode())
    for p in paths:
        h.update(p.encode())
        with open(p, "rb") as f:
            h.update(f.read())
    return h.hexdigest()


def headers_hash():
    hs = []
    for lib in LIBS:
        hs += sorted(glob.glob(os.path.join(COLA, lib, "*.h")))
    return sha(hs)


def compile_one(args):
    src, obj, stamp, want, flags = args
    r = subprocess.run([CXX] + flags + ["-c", src, "-o", obj], capture_output=True, text=True)
    if r.returncode != 0:
        return (src, r.stderr[-4000:])
    with open(stamp, "w") as f:
        f.write(want)
    return None


def build_variant(variant):
    flags = COMMON + VARIANTS[variant]
    out = os.path.join(build_root(), variant)
    os.makedirs(out, exist_ok=True)
    lock = open(os.path.join(out, ".lock"), "w")
    fcntl.flock(lock, fcntl.LOCK_EX)
    hh = headers_hash()
    jobs, libobjs = [], {}
    for lib in LIBS:
        libobjs[lib] = []
        for src in sorted(glob.glob(os.path.join(COLA, lib, "*.cpp"))):
            base = lib + "_" + os.path.basename(src)[:-4]
            obj = os.path.join(out, base + ".o")
            stamp = obj + ".stamp"
            want = sha([src], hh + " ".join(flags) + CXX)
            libobjs[lib].append(obj)
            have = open(stamp).read() if os.path.exists(stamp) and os.path.exists(obj) else ""
            if have != want:
                jobs.append((src, obj, stamp, want, flags))
    t0 = time.time()
    if jobs:
        # biggest first so the long poles start early
        jobs.sort(key=lambda j: -os.path.getsize(j[0]))
        with concurrent.futures.ThreadPoolExecutor(max_workers=int(os.environ.get("VERIF_JOBS", "16"))) as ex:
            errs = [e for e in ex.map(compile_one, jobs) if e]
        if errs:
            for src, msg in errs:
                sys.stderr.write("BUILD-ERROR %s\n%s\n" % (src, msg))
            sys.exit(3)
    changed = set(os.path.basename(j[1]).split("_")[0] for j in jobs)
    for lib in LIBS:
        a = os.path.join(out, lib + ".a")
        if lib in changed or not os.path.exists(a):
            if os.path.exists(a):
                os.remove(a)
            subprocess.check_call(["ar", "rcs", a] + libobjs[lib])
    # drop objects of sources that no longer exist
    keep = set(o for l in libobjs.values() for o in l)
    for o in glob.glob(os.path.join(out, "lib*_*.o")):
        if o not in keep:
            os.remove(o)
            if os.path.exists(o + ".stamp"):
                os.remove(o + ".stamp")
    sys.stderr.write("[build] %s: %d/%d objects rebuilt in %.1fs from %s\n" % (
        variant, len(jobs), sum(len(v) for v in libobjs.values()), time.time() - t0, REPO))
    fcntl.flock(lock, fcntl.LOCK_UN)
    return out


def build_harness(variant, src, extra):
    out = build_variant(variant)
    hdir = os.path.join(build_root(), "harness-" + variant)
    os.makedirs(hdir, exist_ok=True)
    name = os.path.basename(src)[:-4]
    exe = os.path.join(hdir, name)
    flags = HARNESS_FLAGS + VARIANTS[variant] + list(extra)
    deps = [src] + sorted(glob.glob(os.path.join(VERIF, "mcx", "*.h"))) + sorted(glob.glob(os.path.join(VERIF, "oracle", "*.h")))
    libs = [os.path.join(out, l + ".a") for l in ["libdialect", "libtopology", "libcola", "libavoid", "libvpsc"]]
    # harnesses may #include library .cpp files to reach file-static helpers
    incl = []
    with open(src) as f:
        for line in f:
            if line.startswith("#include") and ".cpp" in line:
                p = line.split('"')[1] if '"' in line else line.split("<")[1].split(">")[0]
                cand = os.path.join(COLA, p)
                if os.path.exists(cand):
                    incl.append(cand)
    want = sha(deps + incl, headers_hash() + " ".join(flags) + "".join("%s:%d" % (l, os.stat(l).st_mtime_ns) for l in libs))
    stamp = exe + ".stamp"
    if not (os.path.exists(exe) and os.path.exists(stamp) and open(stamp).read() == want):
        t0 = time.time()
        cmd = [CXX] + flags + [src, "-o", exe] + libs + ["-lpthread"]
        r = subprocess.run(cmd, capture_output=True, text=True)
        if r.returncode != 0:
            sys.stderr.write("HARNESS-BUILD-ERROR %s\n%s\n" % (src, r.stderr[-6000:]))
            sys.exit(3)
        with open(stamp, "w") as f:
            f.write(want)
        sys.stderr.write("[build] harness %s (%s) in %.1fs\n" % (name, variant, time.time() - t0))
    return exe


if __name__ == "__main__":
    a = sys.argv[1:]
    if a and a[0] == "--harness":
        print(build_harness(a[1], a[2], a[3:]))
    else:
        for v in a or ["chk"]:
            build_variant(v)
