#!/usr/bin/env python3
"""tools/mkmutant.py <name> <file-relative-to-/repo> <<< 'OLD\n=====\nNEW'   -> mutants/<name>.diff"""
import sys, difflib, os
name, rel = sys.argv[1], sys.argv[2]
old, new = sys.stdin.read().split("\n=====\n")
new = new.rstrip("\n")
src = open(os.path.join("/repo", rel)).read()
assert src.count(old) == 1, "old text occurs %d times" % src.count(old)
dst = src.replace(old, new)
d = difflib.unified_diff(src.splitlines(True), dst.splitlines(True), "a/" + rel, "b/" + rel)
out = os.path.join(os.path.dirname(os.path.dirname(os.path.abspath(__file__))), "mutants", name + ".diff")
open(out, "w").write("".join(d))
print("wrote", out)
