#!/usr/bin/env python3
"""Build both library variants and every harness binary named in tools/props.py (warms the object cache)."""
import os, sys, concurrent.futures
VERIF = os.path.dirname(os.path.dirname(os.path.abspath(__file__)))
sys.path.insert(0, os.path.join(VERIF, "tools"))
import build as B
from props import PROPS
B.build_variant("chk"); B.build_variant("san")
jobs = sorted(set((p.get("variant", "chk"), p["src"], tuple(p.get("flags", []))) for c in PROPS.values() for p in c["parts"]))
def one(j):
    return B.build_harness(j[0], os.path.join(VERIF, "harness", j[1]), list(j[2]))
with concurrent.futures.ThreadPoolExecutor(max_workers=8) as ex:
    for exe in ex.map(one, jobs):
        pass
print("prebuilt %d harness binaries" % len(jobs))
