#!/usr/bin/env python3
"""Regenerate seeded/README.md from seeded/*/meta.json."""
import json, glob, os
VERIF = os.path.dirname(os.path.dirname(os.path.abspath(__file__)))
rows = []
for f in sorted(glob.glob(os.path.join(VERIF, "seeded", "*", "meta.json"))):
    m = json.load(open(f)); rows.append(m)
out = ["# Seeded breaking changes", "",
       "Each directory holds `patch.diff` (apply with `git -C /repo apply`, undo with `git -C /repo checkout -- .`; or run",
       "`tools/trial.py seeded/<id>/patch.diff <PROP>` which uses a scratch copy), the author's `demo.cpp` and `README.md`,",
       "`confirm.log` (my own confirmation: test-suites with the change, demo with and without it) and `meta.json`.",
       "All changes were written by sub-agents that saw only the property text and their own scratch worktree.", "",
       "| id | breaks | files | needs to manifest | detection |", "|---|---|---|---|---|"]
for m in rows:
    out.append("| %s | %s | %s | %s | %s |" % (m["id"], m["breaks_property"], ", ".join(os.path.basename(x) for x in m["files_changed"]), m["needs_to_manifest"].replace("|", "/"), m["checks"].replace("|", "/")))
open(os.path.join(VERIF, "seeded", "README.md"), "w").write("\n".join(out) + "\n")
print("seeded/README.md: %d entries" % len(rows))
