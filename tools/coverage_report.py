#!/usr/bin/env python3
"""Summarise build/coverage/*.summary (gcov -f): per library source file the share of lines executed and the functions never entered."""
import glob, os, re, subprocess, sys
VERIF = os.path.dirname(os.path.dirname(os.path.abspath(__file__)))
rows = []
for f in sorted(glob.glob(os.path.join(VERIF, "build/coverage/*.summary"))):
    txt = open(f).read().split("\n\n")
    unit = os.path.basename(f)[:-8]
    never, total_funcs, fileline = [], 0, None
    for blk in txt:
        m = re.match(r"Function '(.*)'\nLines executed:([\d.]+)% of (\d+)", blk.strip())
        if m:
            total_funcs += 1
            if float(m.group(2)) == 0 and int(m.group(3)) >= 3:
                never.append((m.group(1), int(m.group(3))))
            continue
        m = re.match(r"File '(.*)'\nLines executed:([\d.]+)% of (\d+)", blk.strip())
        if m and m.group(1).endswith(".cpp") and "/cola/" in m.group(1):
            fileline = (m.group(1), float(m.group(2)), int(m.group(3)))
    if fileline:
        rows.append((unit, fileline, total_funcs, never))
for unit, (path, pct, n), tf, never in rows:
    print("%-45s %5.1f%% of %5d lines; %3d of %3d functions never entered" % (path.split("/cola/")[1], pct, n, len(never), tf))
if "-v" in sys.argv:
    for unit, (path, pct, n), tf, never in rows:
        if never:
            print("\n== %s" % path.split("/cola/")[1])
            for name, ln in sorted(never, key=lambda x: -x[1])[:40]:
                r = subprocess.run(["c++filt", name], capture_output=True, text=True).stdout.strip()
                if r.startswith("std::") or " std::" in r[:40] or "__gnu_cxx" in r[:30] or "outputCode" in r or "CriticalFailure" in r or "printf" in r: continue   # library templates, debug output
                print("   %4d lines  %s" % (ln, r[:150]))
