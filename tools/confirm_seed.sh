#!/bin/bash
# tools/confirm_seed.sh <worktree>   -- my own confirmation of a sub-agent's seeded change:
#  (1) the whole repository suite still passes with the change, (2) SEED/demo.cpp fails on the changed tree, (3) passes on /repo.
# The sub-agent provides SEED/demo.cpp and SEED/build_demo.sh <tree-root> <out-exe>.  Writes SEED/confirm.log.
wt=$1; log=$wt/SEED/confirm.log; : > $log
cd $wt/cola || exit 2
make -j10 >/dev/null 2>$wt/SEED/build.err; echo "build rc=$?" >> $log
make -k -j10 check > $wt/SEED/check_all.log 2>&1
for lib in libvpsc libavoid libcola libtopology libdialect; do
  s=$lib/tests/test-suite.log
  [ -f $s ] && echo "$(grep -E '^# (TOTAL|PASS|FAIL|ERROR)' $s | tr '\n' ' ') <- $lib" >> $log
done
bash $wt/SEED/build_demo.sh $wt /tmp/seed/demo_mod.$$ >/dev/null 2>>$wt/SEED/build.err && { timeout 300 /tmp/seed/demo_mod.$$ > $wt/SEED/demo_mod.out 2>&1; echo "demo on MODIFIED tree: exit $? : $(tail -1 $wt/SEED/demo_mod.out)" >> $log; } || echo "demo build on MODIFIED tree failed" >> $log
bash $wt/SEED/build_demo.sh /repo /tmp/seed/demo_orig.$$ >/dev/null 2>>$wt/SEED/build.err && { timeout 300 /tmp/seed/demo_orig.$$ > $wt/SEED/demo_orig.out 2>&1; echo "demo on /repo (unmodified): exit $? : $(tail -1 $wt/SEED/demo_orig.out)" >> $log; } || echo "demo build on /repo failed" >> $log
rm -f /tmp/seed/demo_mod.$$ /tmp/seed/demo_orig.$$
cat $log
