#!/bin/bash
# maintenance aid: run every thorough tier once (no evidence), one line per property
for p in C01 C02 C03 C04 C05 C06 C07 C08 C09 C10 C11 C12 C13 C14 C16 C17 C18 C19 C20 C15; do
  s=$(date +%s); ./check $p --tier thorough --no-evidence > thorough_$p.log 2>&1; rc=$?
  echo "$p rc=$rc t=$(( $(date +%s)-s )) $(tail -1 thorough_$p.log | cut -c1-200)"
  grep -E "^VIOLATION|^MACHINERY" thorough_$p.log | head -5 | cut -c1-300
done
