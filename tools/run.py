#!/usr/bin/env python3
"""Shard scheduler, crash attribution, merge, known-finding filter, evidence writer."""
import json, os, subprocess, sys, time, mmap, struct, shutil, signal, re, tempfile

VERIF = os.path.dirname(os.path.dirname(os.path.abspath(__file__)))
sys.path.insert(0, os.path.join(VERIF, "tools"))
import build as B  # noqa: E402

SAN_ENV = {
    "ASAN_OPTIONS": "detect_leaks=0:abort_on_error=0:exitcode=66:allocator_may_return_null=1:detect_stack_use_after_return=0:handle_abort=1",
    "UBSAN_OPTIONS": "print_stacktrace=1:halt_on_error=1:exitcode=67",
}


def read_progress(path):
    try:
        with open(path, "rb") as f:
            d = f.read(116)
        cur, flag = struct.unpack("ll", d[:16])
        phase = d[16:].split(b"\0")[0].decode(errors="replace")
        return cur, flag, phase
    except Exception:
        return -1, 0, ""


def signature(stderr_text):
    """Reduce a sanitizer / assertion report to a stable call-site signature."""
    t = stderr_text
    m = re.search(r"runtime error: ([^\n]*)", t)
    if m:
        loc = re.search(r"(\S+?):(\d+):\d+: runtime error", t)
        return "ubsan: %s @ %s" % (re.sub(r"0x[0-9a-f]+", "ADDR", m.group(1))[:120],
                                     os.path.basename(loc.group(1)) if loc else "?")   # no line number: it moves with unrelated edits
    m = re.search(r"ERROR: AddressSanitizer: (\S+)", t)
    if m:
        frames = re.findall(r"#\d+ 0x[0-9a-f]+ in (\S+) (\S+)", t)
        fr = [f for f in frames if "/cola/" in f[1]]
        top = fr[0] if fr else (frames[0] if frames else ("?", "?"))
        return "asan: %s in %s @ %s" % (m.group(1), top[0], os.path.basename(top[1]))
    m = re.search(r"MCX-ABORT: ([^\n]*)", t)
    if m:
        return m.group(1)[:200]
    return None


class HarnessRun:
    def __init__(self, exe, tier, workers, deadline_s, case_limit, extra_args=(), env=None, seed=0):
        self.exe, self.tier, self.workers = exe, tier, workers
        self.deadline_s, self.case_limit = deadline_s, case_limit
        self.extra_args, self.env, self.seed = list(extra_args), env, seed
        self.dir = tempfile.mkdtemp(prefix="run-", dir=os.path.join(B.build_root(), "tmp"))
        self.aborts = []

    def cmd(self, i, resume=None, only=None):
        c = [self.exe, "--tier", self.tier, "--case-limit", str(self.case_limit), "--seed", str(self.seed)] + self.extra_args
        if only is not None:
            c += ["--only", str(only)]
        else:
            c += ["--shard", "%d/%d" % (i, self.workers), "--out", os.path.join(self.dir, "w%d.jsonl" % i),
                  "--progress", os.path.join(self.dir, "p%d" % i), "--deadline", "%.1f" % self.t_deadline]
            if resume is not None:
                c += ["--resume-after", str(resume)]
        return c

    def run(self):
        env = dict(os.environ)
        if self.env:
            env.update(self.env)
        self.t_deadline = time.time() + self.deadline_s
        procs = {}
        errf = {}
        restarts = [0] * self.workers
        for i in range(self.workers):
            errf[i] = open(os.path.join(self.dir, "e%d" % i), "wb")
            procs[i] = subprocess.Popen(self.cmd(i), env=env, stdout=subprocess.DEVNULL, stderr=errf[i])
        machinery_error = None
        while procs:
            time.sleep(0.02)
            for i, p in list(procs.items()):
                rc = p.poll()
                if rc is None:
                    if time.time() > self.t_deadline + 3 * self.case_limit + 60:
                        p.kill()
                    continue
                del procs[i]
                errf[i].close()
                if rc == 0:
                    continue
                cur, flag, phase = read_progress(os.path.join(self.dir, "p%d" % i))
                err = open(os.path.join(self.dir, "e%d" % i), "rb").read().decode(errors="replace")
                if rc == 3 or cur < 0:
                    machinery_error = "worker %d exit %d before/without a case: %s" % (i, rc, err[-2000:])
                    continue
                if rc == 98:   # the harness recorded a non-termination violation for an armed case itself: judged, carry on after it
                    self.armed_timeouts = getattr(self, "armed_timeouts", 0) + 1
                    errf[i] = open(os.path.join(self.dir, "e%d" % i), "wb")
                    procs[i] = subprocess.Popen(self.cmd(i, resume=cur), env=env, stdout=subprocess.DEVNULL, stderr=errf[i])
                    continue
                why = "timeout" if rc == 97 else ("signal %d" % -rc if rc < 0 else "exit %d" % rc)
                self.aborts.append({"case": cur, "phase": phase, "why": why, "sig": signature(err), "stderr": err[-3000:]})
                restarts[i] += 1
                if restarts[i] > 3000:
                    machinery_error = "worker %d restarted too often" % i
                    continue
                errf[i] = open(os.path.join(self.dir, "e%d" % i), "wb")
                procs[i] = subprocess.Popen(self.cmd(i, resume=cur), env=env, stdout=subprocess.DEVNULL, stderr=errf[i])
        if machinery_error:
            raise RuntimeError(machinery_error)
        return self.merge()

    def merge(self):
        res = {"phases": {}, "cnt": {}, "classes": {}, "samples": [], "viol": [], "executed": 0, "enumerated": 0,
               "stopped": False, "aborts": self.aborts}
        for i in range(self.workers):
            path = os.path.join(self.dir, "w%d.jsonl" % i)
            if not os.path.exists(path):
                continue
            last = {}      # pid -> last stat line (cumulative for that process)
            order = []
            for line in open(path, errors="replace"):
                try:
                    r = json.loads(line)
                except Exception:
                    continue
                t = r.get("t")
                if t == "stat":
                    if r["pid"] not in last:
                        order.append(r["pid"])
                    last[r["pid"]] = r
                elif t == "sample":
                    res["samples"].append(r)
                elif t == "viol":
                    res["viol"].append(r)
            if not order:
                continue
            final = last[order[-1]]          # the process that reached the end of the enumeration (or the deadline)
            res["stopped"] |= final["stopped"] or not final["final"]
            res["enumerated"] = max(res["enumerated"], final["enumerated"])
            for pid in order:
                r = last[pid]
                res["executed"] += r["executed"]
                for k, v in r["cnt"].items():
                    res["cnt"][k] = res["cnt"].get(k, 0) + v
                for k, v in r["classes"].items():
                    res["classes"].setdefault(k, set()).update(v)
                for ph in r["phases"]:
                    d = res["phases"].setdefault(ph["name"], {"cases": 0, "executed": 0, "complete": True, "_w": set()})
                    d["executed"] += ph["executed"]
                    d["cases"] = max(d["cases"], ph["cases"])
            # cases / completeness come from the last process of each worker (it enumerated everything up to its end)
            seen = set()
            for ph in final["phases"]:
                d = res["phases"].setdefault(ph["name"], {"cases": 0, "executed": 0, "complete": True, "_w": set()})
                d["cases"] = max(d["cases"], ph["cases"])
                d["complete"] &= ph["complete"]
                seen.add(ph["name"])
            res.setdefault("_seen", []).append(seen)
        # a phase that some worker never reached is incomplete
        for name, d in res["phases"].items():
            d.pop("_w", None)
            for seen in res.get("_seen", []):
                if name not in seen:
                    d["complete"] = False
        res.pop("_seen", None)
        if "deadline_hit" in res["cnt"]:
            res["cnt"]["deadline_hit"] = 1
        res["classes"] = {k: sorted(v) for k, v in res["classes"].items()}
        return res

    def replay_one(self, only, env_extra=None):
        env = dict(os.environ)
        if self.env:
            env.update(self.env)
        if env_extra:
            env.update(env_extra)
        p = subprocess.run(self.cmd(0, only=only), env=env, capture_output=True, text=True, errors="replace",
                           timeout=self.case_limit * 10 + 60)
        return p.returncode, p.stdout, p.stderr

    def cleanup(self):
        shutil.rmtree(self.dir, ignore_errors=True)


def load_known():
    p = os.path.join(VERIF, "known_findings.json")
    if not os.path.exists(p):
        return []
    return json.load(open(p))["findings"]


_inputs_cache = {}


def match_known(prop, v, known):
    """A violation is covered by an open finding iff the failing clause equals the finding's symptom AND either the harness
    tagged it with the finding's class, or the finding lists specific failing inputs (sha1 of the case description) and this is one."""
    import hashlib
    for k in known:
        if k["property"] != prop or k.get("status") != "open":
            continue
        if k["symptom"] != v["clause"]:
            continue
        if k.get("class") and k["class"] in v.get("classes", []):
            return k
        if k.get("inputs_file"):
            if k["inputs_file"] not in _inputs_cache:
                _inputs_cache[k["inputs_file"]] = set(json.load(open(os.path.join(VERIF, k["inputs_file"])))["inputs"])
            if hashlib.sha1(v["desc"].encode()).hexdigest()[:16] in _inputs_cache[k["inputs_file"]]:
                return k
    return None
