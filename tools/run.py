#!/usr/bin/env python3
"""Shard scheduler, crash attribution, merge, known-finding filter, evidence writer."""
import json, os, subprocess, sys, time, mmap, struct, shutil, signal, re, tempfile

VERIF = os.path.dirname(os.path.dirname(os.path.abspath(__file__)))
sys.path.insert(0, os.path.join(VERIF, "tools"))
import build as B  # noqa: E402

SAN_ENV = {
    "ASAN_OPTIONS": "detect_leaks=0:abort_on_error=0:exitcode=66:allocator_may_return_null=1:detect_stack_use_after_return=0:handle_abort=1",
    "UBSAN_OPTIONS": "print_stacktrace=1:halt_on_error=1:exitcode=67",
}


def read_progress(path):
    try:
        with open(path, "rb") as f:
            d = f.read(116)
        cur, flag = struct.unpack("ll", d[:16])
        phase = d[16:].split(b"\0")[0].decode(errors="replace")
        return cur, flag, phase
    except Exception:
        return -1, 0, ""


def signature(stderr_text):
    """Reduce a sanitizer / assertion report to a stable call-site signature."""
    t = stderr_text
    m = re.search(r"runtime error: ([^\n]*)", t)
    if m:
        loc = re.search(r"(\S+?):(\d+):\d+: runtime error", t)
        return "ubsan: %s @ %s" % (re.sub(r"0x[0-9a-f]+", "ADDR", m.group(1))[:120],
                                     os.path.basename(loc.group(1)) + ":" + loc.group(2) if loc else "?")
    m = re.search(r"ERROR: AddressSanitizer: (\S+)", t)
    if m:
        frames = re.findall(r"#\d+ 0x[0-9a-f]+ in (\S+) (\S+)", t)
        fr = [f for f in frames if "/cola/" in f[1]]
        top = fr[0] if fr else (frames[0] if frames else ("?", "?"))
        return "asan: %s in %s @ %s" % (m.group(1), top[0], os.path.basename(top[1]))
    m = re.search(r"MCX-ABORT: ([^\n]*)", t)
    if m:
        return m.group(1)[:200]
    return None


class HarnessRun:
    def __init__(self, exe, tier, workers, deadline_s, case_limit, extra_args=(), env=None, seed=0):
        self.exe, self.tier, self.workers = exe, tier, workers
        self.deadline_s, self.case_limit = deadline_s, case_limit
        self.extra_args, self.env, self.seed = list(extra_args), env, seed
        self.dir = tempfile.mkdtemp(prefix="run-", dir=os.path.join(B.build_root(), "tmp"))
        self.aborts = []

    def cmd(self, i, resume=None, only=None):
        c = [self.exe, "--tier", self.tier, "--case-limit", str(self.case_limit), "--seed", str(self.seed)] + self.extra_args
        if only is not None:
            c += ["--only", str(only)]
        else:
            c += ["--shard", "%d/%d" % (i, self.workers), "--out", os.path.join(self.dir, "w%d.jsonl" % i),
                  "--progress", os.path.join(self.dir, "p%d" % i), "--deadline", "%.1f" % self.t_deadline]
            if resume is not None:
                c += ["--resume-after", str(resume)]
        return c

    def run(self):
        env = dict(os.environ)
        if self.env:
            env.update(self.env)
        self.t_deadline = time.time() + self.deadline_s
        procs = {}
        errf = {}
        restarts = [0] * self.workers
        for i in range(self.workers):
            errf[i] = open(os.path.join(self.dir, "e%d" % i), "wb")
            procs[i] = subprocess.Popen(self.cmd(i), env=env, stdout=subprocess.DEVNULL, stderr=errf[i])
        machinery_error = None
        while procs:
            time.sleep(0.02)
            for i, p in list(procs.items()):
                rc = p.poll()
                if rc is None:
                    if time.time() > self.t_deadline + 3 * self.case_limit + 60:
                        p.kill()
                    continue
                del procs[i]
                errf[i].close()
                if rc == 0:
                    continue
                cur, flag, phase = read_progress(os.path.join(self.dir, "p%d" % i))
                err = open(os.path.join(self.dir, "e%d" % i), "rb").read().decode(errors="replace")
                if rc == 3 or cur < 0:
                    machinery_error = "worker %d exit %d before/without a case: %s" % (i, rc, err[-2000:])
                    continue
                why = "timeout" if rc == 97 else ("signal %d" % -rc if rc < 0 else "exit %d" % rc)
                self.aborts.append({"case": cur, "phase": phase, "why": why, "sig": signature(err), "stderr": err[-3000:]})
                restarts[i] += 1
                if restarts[i] > 3000:
                    machinery_error = "worker %d restarted too often" % i
                    continue
                errf[i] = open(os.path.join(self.dir, "e%d" % i), "wb")
                procs[i] = subprocess.Popen(self.cmd(i, resume=cur), env=env, stdout=subprocess.DEVNULL, stderr=errf[i])
        if machinery_error:
            raise RuntimeError(machinery_error)
        return self.merge()

    def merge(self):
        res = {"phases": {}, "cnt": {}, "classes": {}, "samples": [], "viol": [], "executed": 0, "enumerated": 0,
               "stopped": False, "aborts": self.aborts}
        for i in range(self.workers):
            path = os.path.join(self.dir, "w%d.jsonl" % i)
            if not os.path.exists(path):
                continue
            enum_w = 0
            for line in open(path, errors="replace"):
                try:
                    r = json.loads(line)
                except Exception:
                    continue
                t = r.get("t")
                if t == "stat":
                    res["executed"] += r["executed"]
                    enum_w = max(enum_w, r["enumerated"])
                    res["stopped"] |= r["stopped"]
                    for k, v in r["cnt"].items():
                        res["cnt"][k] = res["cnt"].get(k, 0) + v
                    for k, v in r["classes"].items():
                        res["classes"].setdefault(k, set()).update(v)
                elif t == "phase":
                    ph = res["phases"].setdefault(r["name"], {"cases": 0, "executed": 0, "complete": True})
                    ph["cases"] = max(ph["cases"], r["cases"])
                    ph["executed"] += r["executed"]
                    ph["complete"] &= r["complete"]
                elif t == "sample":
                    res["samples"].append(r)
                elif t == "viol":
                    res["viol"].append(r)
            res["enumerated"] = max(res["enumerated"], enum_w)
        res["classes"] = {k: sorted(v) for k, v in res["classes"].items()}
        # restarted workers write several stat lines; 'executed' sums are right because each
        # process counts only what it ran.  A restarted shard re-enumerates, so 'enumerated'
        # is a max, not a sum.
        return res

    def replay_one(self, only, env_extra=None):
        env = dict(os.environ)
        if self.env:
            env.update(self.env)
        if env_extra:
            env.update(env_extra)
        p = subprocess.run(self.cmd(0, only=only), env=env, capture_output=True, text=True, errors="replace",
                           timeout=self.case_limit * 10 + 60)
        return p.returncode, p.stdout, p.stderr

    def cleanup(self):
        shutil.rmtree(self.dir, ignore_errors=True)


def load_known():
    p = os.path.join(VERIF, "known_findings.json")
    if not os.path.exists(p):
        return []
    return json.load(open(p))["findings"]


def match_known(prop, v, known):
    for k in known:
        if k["property"] != prop or k.get("status") != "open":
            continue
        if k["symptom"] != v["clause"]:
            continue
        if k["class"] in v.get("classes", []):
            return k
    return None
