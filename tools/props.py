"""Per-property configuration: which harness parts decide it, with which bounds."""

def T(deadline, case_limit=20, args=(), floor=2):
    return {"deadline": deadline, "case_limit": case_limit, "args": list(args), "floor": floor}

PROPS = {}

PROPS["C01"] = {
    "rule": "every multiset of <=m separation constraints over {ordered pairs}x{gap -1,0,2}x{<=,==} on n variables x desired in {0,1,3}^n x weights in {1,4}^n x 3 scale vectors, run through vpsc::IncSolver/Solver and Avoid::IncSolver (solve and satisfy); plus every operation history of fixed depth over {addConstraint(12-15 constraints), desired[v]:=0|3, solve, satisfy} on one live IncSolver. A case is non-trivial if the system is infeasible or some constraint is active at the result.",
    "bounds": {"quick": "instances n<=3,m<=3 (+2 scaled variants); histories depth<=5 (n=3)", "thorough": "instances n=3 m<=5, n=4 m<=4; histories depth<=6 (n=3), depth 5 (n=4)"},
    "assumptions": ["oracle: Bellman-Ford positive-cycle test and active-set QP in oracle/qp.h", "static Solver is specified for acyclic constraint graphs: a throw on a cyclic graph is not counted"],
    "parts": [{"name": "vpsc", "src": "c01_vpsc.cpp", "quick": T(100, 10, ["--prop", "C01"], 1000), "thorough": T(1500, 10, ["--prop", "C01"], 1000)}],
}
PROPS["C02"] = {
    "rule": "same instance and history alphabets as C01 restricted to executions without flag/throw; solve() positions compared with the unique optimum from an active-set QP oracle (1e-5 x problem scale); all n!*m! permutations of variable slots/ids and constraint order must agree to 1e-9. Non-trivial = at least one constraint active at the optimum.",
    "bounds": {"quick": "instances n<=3,m<=3; permutations n<=3,m<=2; histories depth<=5 incl. scaled", "thorough": "instances n=3 m<=5, n=4 m<=4; permutations n=4 m<=3; histories depth 6"},
    "assumptions": ["oracle: active-set enumeration QP in oracle/qp.h (exact for m<=12)"],
    "parts": [{"name": "vpsc", "src": "c01_vpsc.cpp", "quick": T(100, 10, ["--prop", "C02"], 1000), "thorough": T(1500, 10, ["--prop", "C02"], 1000)}],
}

PROPS["C03"] = {
    "rule": "every scene of k pairwise interior-disjoint convex shapes (grid rectangles and their four right triangles; touching and collinear edges included) on the integer grid 0..G (x10), every pair of grid points strictly outside all closed shapes as connector endpoints, polyline and orthogonal mode, shapeBufferDistance 0 or 2, nudging on; orthogonal connectors routed one per transaction and all in one transaction. Non-trivial = the straight segment between the endpoints is blocked.",
    "bounds": {"quick": "G=3, <=2 shapes", "thorough": "G=4 two shapes, G=3 three shapes"},
    "assumptions": ["oracle: exact rational clipping (oracle/geom.h); a route is only required to be valid when the exact visibility graph (polyline) or the Hanan-grid search with zero-width corridors closed (orthogonal) finds a free path"],
    "parts": [{"name": "routing", "src": "c03_routing.cpp", "quick": T(100, 30, ["--prop", "C03"], 1000), "thorough": T(1500, 60, ["--prop", "C03"], 1000)}],
}
PROPS["C04"] = {
    "rule": "same scene alphabet as C03 (separated or touching convex obstacles), polyline mode, segmentPenalty in {0, 0.5, 3} grid cells, all other penalties 0; cost of displayRoute (length + penalty*bends) compared to 1e-6 with Dijkstra over (vertex, previous vertex) on the exact visibility graph. Non-trivial = straight segment blocked.",
    "bounds": {"quick": "G=4 one shape, G=3 two shapes (rect+tri), G=4 two rects", "thorough": "G=5 two rects, G=4 two rect+tri, three shapes at G=3/4"},
    "assumptions": ["oracle: exact visibility graph + Dijkstra over (vertex, previous vertex) in oracle/geom.h; bend cost model as in makepath.cpp (penalty per non-collinear bend)"],
    "parts": [{"name": "routing", "src": "c03_routing.cpp", "quick": T(100, 30, ["--prop", "C04"], 1000), "thorough": T(1500, 60, ["--prop", "C04"], 1000)}],
}
PROPS["C05"] = {
    "rule": "every scene of k rectangles at least one cell apart on grid 0..G, every free endpoint pair, segmentPenalty in {0.5,2,10} cells, optional single-direction restrictions on either end; raw route() cost (Manhattan length + penalty*bends) compared to 1e-6 with Dijkstra over (cell, heading) on the unit grid; every segment of route() and displayRoute() exactly axis-parallel; Avoid::bends() for every relative position x travel x arrival direction against a 0-1 BFS true minimum. Non-trivial = endpoints not aligned or straight segment blocked.",
    "bounds": {"quick": "G=4 <=2 rects x 3 penalties; direction masks with one rect; bends() on [-2,2]^2", "thorough": "G=5 two rects x 3 penalties, three rects, direction masks with two rects; bends() on [-4,4]^2"},
    "assumptions": ["oracle: grid Dijkstra over (cell, heading) with in-place U-turn = 2 bends, margin of 2 cells around the grid (oracle/geom.h)"],
    "parts": [{"name": "routing", "src": "c03_routing.cpp", "quick": T(100, 30, ["--prop", "C05"], 1000), "thorough": T(1500, 60, ["--prop", "C05"], 1000)}],
}
PROPS["C16"] = {
    "rule": "every ordered 3- and 4-tuple of points of the 6x6 integer grid for vecDir, colinear, pointOnLine, inBetween, segmentIntersect (+argument symmetries), segmentShapeIntersect (both flag values), segmentIntersectPoint (+coordinates, symmetry), rayIntersectPoint, cornerSide, inValidRegion, linesegment::LineSegment::Intersect; every triangle and simple quadrilateral on the 4x4 grid x every half-grid query point for inPoly (both countBorder) and inPolyGen; all re-run under exactly representable transforms (mirror, axis swap, x3+offset, x2^10, x2^20, x(2^20-1)+offset, translation by 2^30, anisotropic). Non-trivial = degenerate tuples (collinear triple / query point on a polygon border).",
    "bounds": {"quick": "9 transforms", "thorough": "30 transforms (every 2^k, k<=20, odd/prime multipliers)"},
    "assumptions": ["reference = the documented/used meaning of each predicate evaluated in exact 64-bit integer arithmetic (harness/c16_geometry.cpp); pointOnLine/inBetween mean the OPEN segment (every caller adds the endpoints itself)", "random coordinates up to 2^20 (sampling) are replaced by exhaustive grids under scalings up to 2^20"],
    "parts": [{"name": "geometry", "src": "c16_geometry.cpp", "quick": T(100, 60, [], 1000), "thorough": T(1200, 120, [], 1000)}],
}
PROPS["C17"] = {
    "rule": "every multigraph on n nodes with <=m edges over {(u,v): u<=v} x weight in {0,0.5,1,2} (self-loops, parallel edges, zero weights, disconnected) through dijkstra, johnsons, floyd_warshall (given weights and default unit weights); ConstrainedFDLayout::readLinearD/G for edge lengths in {-1,0,0.5,2} x idealLength in {1,30}. Non-trivial = graph has a self-loop, parallel edges, a non-positive length or is disconnected.",
    "bounds": {"quick": "n<=3 m<=4, n=4 m<=3; layout n<=3 m<=3", "thorough": "n=4 m<=4, n=5 m<=3(4 with 2 weights); layout n=4 m<=3, n=3 m<=4"},
    "assumptions": ["oracle: Bellman-Ford relaxation written in the harness", "sizes in the hundreds are outside the bound"],
    "parts": [{"name": "paths", "src": "c17_paths.cpp", "quick": T(100, 20, [], 1000), "thorough": T(1200, 20, [], 1000)}],
}
PROPS["C09"] = {
    "rule": "every multiset of n rectangles with corners on grid 0..G (x10): identical, nested, chain-overlapping, grid-tied, 1-cell-thin; x every fixed subset whose members are pairwise non-overlapping x thirdPass off/on x initial border 0/2 through removeoverlaps; the same inputs through generateXConstraints (with and without neighbour lists) and generateYConstraints. Oracle is evaluated on the rectangles left behind even when an assertion throws. Non-trivial = some pair overlaps initially.",
    "bounds": {"quick": "(n,G) in (1,3),(2,3),(3,2),(3,3),(4,2),(5,2)", "thorough": "+ (2,4),(3,4),(4,3),(6,2)"},
    "assumptions": ["generated constraints are judged exactly: acyclic and every pair overlapping in the other axis joined by a directed path of summed gap >= half-extent sum", "fixed rectangles must stay within 1% of the mean size unless some pass is infeasible with the fixed rectangles pinned (class fixed_wedge, known finding)", "sizes in the hundreds are outside the bound"],
    "parts": [{"name": "overlaps", "src": "c09_overlaps.cpp", "quick": T(100, 20, [], 1000), "thorough": T(1200, 20, [], 1000)}],
}
PROPS["C18"] = {
    "rule": "SepDir(8) x GapType(2) x SepType(EQ,INEQ) x gap in {+0,-0,1,-1,2.5} x 7 transforms x 196 placements of two nodes (centres in [-3,3]^2, sizes 2x2/4x2/2x4): sat(c,P) <=> sat(T(c),T(P)) with satisfaction defined by the library's own generateSeparationConstraint; all 49 products of two symmetries and R^4 compared bit-for-bit with the D4 table; every history of <=2 (3) SepMatrix::addSep calls over both id orders compared with the same history issued in canonical order with opposite directions; TGLF write/read/write round trip for graphs n<=3 with routes and constraints. Non-trivial = constraint satisfied by some but not all placements / history uses the flipped order / graph has a route or constraint.",
    "bounds": {"quick": "addSep histories depth 2", "thorough": "depth 3 (restricted first two ops), length-3 transform words, all constraint choices in the round trip"},
    "assumptions": ["geometric convention pinned by the unambiguous flips/half-turn: ROTATE90CW (x,y)->(-y,x) on a y-down screen", "satisfaction is defined by the library's own translation to VPSC constraints, so the check is about commutation, not about sign conventions"],
    "parts": [{"name": "transforms", "src": "c18_transforms.cpp", "quick": T(100, 20, [], 100), "thorough": T(1200, 20, [], 100)}],
}
PROPS["C19"] = {
    "rule": "every labelled connected simple graph on n nodes through peel (node/edge partition, trees acyclic+connected, roots shared with core, core has no degree-1 node); every labelled simple graph through getConnComps; every rooted tree (parent[i]<i) x 4 growth directions x 2 orderings through Tree::symmetricLayout (no two nodes on top of each other); every labelled leafless connected graph routed by LeaflessOrthoRouter through OrthoPlanariser (no crossing left, every original node present, former neighbours connected through new nodes only). Non-trivial = peel removes a tree / graph disconnected / routed form has a crossing.",
    "bounds": {"quick": "peel n<=6, components n<=5, trees n<=6, planarise n<=5", "thorough": "peel n<=7, components n<=6, trees n<=8, planarise n<=6"},
    "assumptions": ["graphs up to ~60 nodes are outside the bound; all graphs up to the stated n are covered instead"],
    "parts": [{"name": "decomp", "src": "c19_decomp.cpp", "quick": T(100, 30, [], 100), "thorough": T(1500, 60, [], 100)}],
}
PROPS["C13"] = {
    "engine": "mcx-bfs",
    "rule": "start scenes: 3 nodes (10x10) on distinct cells of a 4x4 grid (spacing 20) with one edge, straight (not crossing the third node) or bent tightly round a corner of the third node; 4 nodes on a 3x3 grid with two edges. Operations: (axis, node, target coordinate on the grid) with weight 10000, each followed by the TopologyConstraints::solve() loop exactly as ColaTopologyAddon::moveTo runs it. All operation sequences to the depth bound (stateless); oracle after every step. Non-trivial = a bend exists at some point of the sequence.",
    "bounds": {"quick": "depth 2 (3 nodes), depth 1 (4 nodes)", "thorough": "depth 3 (3 nodes), depth 2 (4 nodes)"},
    "assumptions": ["side invariant is checked as: the swept angle of an edge path round a non-end node changes by less than 1.5*pi in one step", "resize() and force-driven steps are outside the alphabet; steps are the moveTo form"],
    "parts": [{"name": "topology", "src": "c13_topology.cpp", "quick": T(100, 20, [], 100), "thorough": T(1500, 20, [], 100)}],
}
PROPS["C14"] = {
    "rule": "every labelled connected simple graph on n nodes through doHOLA under: start placement in {circle, all coincident, line} x node sizes in {30x30, mixed} x useACAforLinks x do_near_align x preferred aspect ratio (n<=4: full product; n=5: link mode x near-align). Oracle: same node/edge sets, sizes to 1e-9, no node overlap (1e-6), every route segment axis-parallel (1e-6), routes begin/end inside their end nodes and meet no third node, the returned SepMatrix constraints (translated by the library's own generator) hold at the returned positions (1e-4). Non-trivial = graph has a cycle (|E|>=|V|).",
    "bounds": {"quick": "n<=4 x 72 configurations, n=5 x 4", "thorough": "n=5 x 12, n=6 x 4"},
    "assumptions": ["axis-parallel to 1e-6 (HOLA coordinates come from a numeric layout)", "satisfaction of returned constraints is judged through SepPair::generateSeparationConstraint"],
    "parts": [{"name": "hola", "src": "c14_hola.cpp", "quick": T(150, 60, [], 100), "thorough": T(1700, 120, [], 100)}],
}
PROPS["C07"] = {
    "rule": "30 constraint templates (Separation <=/== with gaps -5/15/200, Alignment with offsets, Boundary, Distribution, MultiSeparation in both dimensions, FixedRelative groups), every subset of size <=2, on 2-4 nodes with start centres from {0,10,30}^2 (coincident allowed), sizes 20x20/40x20, edge sets {none, one edge, path, cycle}; entry points makeFeasible+run, run, makeFeasible, makeFeasible+runOnce, ConstrainedMajorizationLayout::run; overlap avoidance and neighbour stress off/on. A violated template (>1e-4) must be named in the unsatisfiable-constraint lists. Non-trivial = two constraints or something reported unsatisfiable.",
    "bounds": {"quick": "n=3: all 465 template subsets x every 7th/13th placement x 5 entry points (+ flag variants), n=2 all placements, n=4 single templates", "thorough": "n=3 every placement x 5 entry points; n=4 pairs on every 53rd placement"},
    "assumptions": ["oracle: constraint semantics written from the doxygen text of compound_constraints.h", "PageBoundaryConstraints (soft, weighted page edges) are outside the alphabet"],
    "parts": [{"name": "cola", "src": "c07_cola.cpp", "quick": T(150, 4, ["--prop", "C07"], 100), "thorough": T(1700, 4, ["--prop", "C07"], 100)}],
}
PROPS["C08"] = {
    "rule": "3-4 nodes with start centres from {0,15,40}^2 (heavily overlapping, coincident), sizes 20x20/40x20, path graph; overlap avoidance on; exemption group none/{0,1}; cluster hierarchies none, {0,1}|{2,3}, {0,2}|{1}, {0,1,2}|{3}, nested {{0,1},2}|{3}; padding/margin 0/5; optional satisfiable Separation; makeFeasible() then run(). Judged only when nothing is reported unsatisfiable: no non-exempt pair overlaps by >1e-3 in both axes, sibling cluster member boxes disjoint, no non-member inside a cluster's member box. Non-trivial = some pair overlaps initially.",
    "bounds": {"quick": "n=3 all placements x sizes (4 configurations), n=4 all placements (2 configurations, 2 size masks)", "thorough": "n=4 all placements x 5 hierarchies x padding x 4 size masks"},
    "assumptions": ["rectangle interval arithmetic with the tolerances of the property text"],
    "parts": [{"name": "cola", "src": "c07_cola.cpp", "quick": T(150, 4, ["--prop", "C08"], 100), "thorough": T(1700, 4, ["--prop", "C08"], 100)}],
}
PROPS["C06"] = {
    "engine": "mcx-bfs",
    "rule": "start scenes: every interior-disjoint choice of 2-3 rectangles from a 6-element list (touching and separated pairs) with 1-2 point-to-point connectors from a 5-element endpoint list on the grid 0..6 (x10). Operations: moveShape by one cell in +-x/+-y, deleteShape, addShape (two further rectangles), setSourceEndpoint/setDestEndpoint to three grid points; processTransaction after every op, after every second op, or transactions disabled. All legal sequences (shape alive; no delete of a shape added in the same transaction) to the depth bound, both routing modes. After every transaction: routes valid for the model scene, cost <= cost in a freshly built router for the same scene (1e-6), an extra empty transaction changes no route. Intermediate scenes may overlap; overlapping final scenes and endpoints inside shapes are skipped. Non-trivial = some shape was moved, added or deleted.",
    "bounds": {"quick": "depth 2 (2 shapes, 1 connector), depth 1 (3 shapes, 2 connectors)", "thorough": "depth 3 (4 with two ops per transaction); 3 shapes depth 2-3"},
    "assumptions": ["stateless search: every history is replayed on a fresh router (no state merging)", "orthogonal cost = Manhattan length + segmentPenalty*bends of the raw route()"],
    "parts": [{"name": "incremental", "src": "c06_incremental.cpp", "quick": T(120, 30, [], 100), "thorough": T(1700, 60, [], 100)}],
}
PROPS["C10"] = {
    "rule": "corridor scenes: two tall rectangles leaving a channel of width W cells (S=20) that is the only cheap passage; every set of k orthogonal connectors from x=0 to x=4 with pairwise different end rows (no shared endpoint); idealNudgingDistance in {1,4,12}; all 16 combinations of the four nudging options; optional checkpoint in the channel. Oracle: no pair of shiftable (non-end) segments of different connectors collinear and overlapping when the channel is wide enough for d (decided exactly by a reference placement search, channelFeasible(), that mirrors the limits the library applies: fixed end/checkpoint segments, channel walls, S/Z-bend limits); separated pairs in the channel at least d apart where the full distance is feasible in the order the library chose and nothing but the walls limits the segments, and at least d/10 (the smallest reduced distance) otherwise; first/last point of displayRoute equal those of route and the requested endpoints; displayRoute has no more segments than route().simplify(); every segment axis-parallel; checkpoint on the route. Non-trivial = raw routes share a middle segment.",
    "bounds": {"quick": "k=2 and k=3 (W=1), k=2 (W=2), k=2 with checkpoint: 3 distances x all 16 option sets; k=3 (W=2) and k=3 with checkpoint x 2 distances x 3 option sets; k=4 x 2", "thorough": "k=3 (W=2), k=3 with checkpoint, k=2 (W=3), k=2 with checkpoint (W=2): 3 distances x 16 option sets; k=4 (W=1,2), k=3 (W=3), k=3 with checkpoint (W=2): 3 distances x 4 option sets"},
    "assumptions": ["end segments are fixed by design and are not the subject of 'wide enough'", "the channel is 'wide enough for the requested nudging distance' iff some placement of the movable in-channel segments keeps all x-overlapping pairs (not both fixed) the full distance apart within the limits the library itself imposes", "a reduced distance is never below a tenth of the requested one (the library reduces in tenths)"],
    "parts": [{"name": "nudging", "src": "c10_nudging.cpp", "quick": T(120, 20, [], 100), "thorough": T(1700, 30, [], 100)}],
}
PROPS["C12"] = {
    "heap": True,
    "rule": "k terminal shapes (8x8, left and right pins of one class, insideOffset 2) on distinct cells of a small grid (spacing 20), joined as a star through one junction placed at every free cell centre, or given as a bare terminal list; hyperedge improvement off / moving / moving+adding+deleting; full rerouting registered by junction, by terminal list, or not at all; optionally a further transaction that moves a terminal; optional obstacle; each under ascending and descending heap addresses (the rerouter iterates pointer-ordered sets). Oracle: connectors+junctions form one tree, its leaves are exactly the original terminal shapes, every connector has both ends attached, routes run between pins of the attached shape / the junction position or recommendedPosition, new/deleted lists consistent with the live objects. Non-trivial = rerouting registered or add/delete improvement enabled.",
    "bounds": {"quick": "k=3 on 3x3 cells x 36 configurations; k=3 on 4x4 cells x 6; k=4 on 3x3 x 36", "thorough": "k=3 on 4x4 x 36; k=3 and k=4 on 3x3 with obstacle; k=4 on 4x4 x 36; k=5 on 3x3 x 36"},
    "assumptions": ["the ConnEnd returned right after a reroute has no active pin yet, so route ends are compared with the attached shape's pins", "junctions and connectors that the last transaction lists as deleted (by rerouting or by improvement) but that the router has not freed yet are not part of the hyperedge", "the follow-up move takes the first terminal to the first free neighbouring cell"],
    "parts": [{"name": "hyperedge", "src": "c12_hyperedge.cpp", "quick": T(120, 20, [], 100), "thorough": T(1700, 30, [], 100)}],
}
PROPS["C11"] = {
    "heap": True,
    "rule": "one 20x20 shape; pin sets = every non-empty subset of {L,R,T,B centre} plus two pins on one side, proportional or absolute offsets, insideOffset 3 (0 in a separate sub-alphabet), direction mask automatic / explicit side / all, exclusivity default / forced / shared; 1-2 connectors from the pin class to free grid points or to a junction; 0-2 checkpoints; then nothing / translate / resize and a second transaction; both routing modes; ascending and descending heap addresses. Oracle: pin-attached end equals position() of some pin of the class after the move; orthogonal routes leave in a permitted direction; no exclusive pin position used twice; checkpoints visited in order; junction ends at the junction position; free ends unmoved. Non-trivial = the class has more than one pin.",
    "bounds": {"quick": "17 pin sets x 3 moves (explicit directions) + 8 option variants on 6 pin sets, k<=2", "thorough": "full product of offsets x direction mask x exclusivity x move x far-end kind on 17 pin sets"},
    "assumptions": ["the number of connectors does not exceed the number of pins when all pins are exclusive ('provided a free pin exists')"],
    "parts": [{"name": "pins", "src": "c11_pins.cpp", "quick": T(120, 20, [], 100), "thorough": T(1700, 30, [], 100)}],
}
def SAN(name, src, args, qd, td, case_limit=30, phases=0):
    # phases > 0: the part replays another property's alphabet under a short deadline; the deadline is spread over that many phases (--phase-slice), so that every
    # phase is explored smallest-first for its slice instead of the first phases using everything up
    q = args + ["--c15", "1"] + (["--phase-slice", "%.2f" % (0.8 * qd / phases)] if phases else [])
    t = args + ["--c15", "1"] + (["--phase-slice", "%.2f" % (0.8 * td / phases)] if phases else [])
    return {"name": name, "src": src, "variant": "san", "abort_is_violation": True, "quick": T(qd, case_limit, q, 1), "thorough": T(td, case_limit * 2, t, 1)}

PROPS["C15"] = {
    "engine": "mcx-bfs",
    "heap": True,
    "technique": "explicit-state model checking of the implementation in the sanitised build: exhaustive enumeration of legal API histories and of the other properties' input alphabets; oracle = ASan/UBSan reports, library assertions (thrown as CriticalFailure), per-case CPU horizon, live-allocation count",
    "rule": "engine 1: every legal sequence of documented Router API calls (add/move/delete shape, add pin, add/move/delete junction, add connector with point/pin/junction ends, set endpoint, delete connector, set option/parameter, processTransaction) to the depth bound, polyline and orthogonal, transactions on/off, always ending with ~Router (so routers with queued actions are destroyed); engine 2: the quick alphabets of the other properties (VPSC instances and histories, routing scenes, nudging corridors, pins, hyperedges, libcola layouts, removeoverlaps, libtopology steps, HOLA, decompositions, shortest paths, transforms/TGLF) replayed in the build with AddressSanitizer + UndefinedBehaviourSanitizer + pattern-initialised locals, with functional verdicts muted. A violation is an ASan/UBSan report, a failed library assertion, a case exceeding its CPU horizon, or allocations still live after the owning object is destroyed (repeatable). Non-trivial (engine 1) = the router is destroyed with queued, unprocessed actions.",
    "bounds": {"quick": "Router histories depth<=4 (depth 4 with transactions on); other alphabets at their quick bounds under a per-part deadline", "thorough": "Router histories depth 5; other alphabets with longer deadlines"},
    "assumptions": ["legality of a history is decided by the scene model in harness/c15_router.cpp from the documented preconditions only", "uninitialised reads are caught where they reach a sanitizer check (bool/enum loads, pattern-filled locals) or a library assertion; there is no MemorySanitizer pass", "parts that hit their deadline report exhaustive:false"],
    "parts": [
        SAN("router_histories", "c15_router.cpp", [], 240, 2400),
        SAN("cola_api", "c15_cola_api.cpp", [], 60, 900),
        SAN("dialect_api", "c15_dialect_api.cpp", [], 60, 900),
        SAN("vpsc", "c01_vpsc.cpp", ["--prop", "C01"], 24, 300, 10, phases=28),
        SAN("routing", "c03_routing.cpp", ["--prop", "C03"], 34, 450, phases=46),
        SAN("incremental", "c06_incremental.cpp", [], 32, 420, phases=38),
        SAN("nudging", "c10_nudging.cpp", [], 30, 400, phases=313),
        SAN("pins", "c11_pins.cpp", [], 32, 320, phases=648),
        SAN("hyperedges", "c12_hyperedge.cpp", [], 20, 300),
        SAN("cola", "c07_cola.cpp", ["--prop", "C07"], 24, 300, 8, phases=15),
        SAN("cola_overlap_clusters", "c07_cola.cpp", ["--prop", "C08"], 28, 400, 8, phases=26),
        SAN("overlaps", "c09_overlaps.cpp", [], 10, 100),
        SAN("topology", "c13_topology.cpp", [], 20, 300, phases=13),
        SAN("hola", "c14_hola.cpp", [], 32, 400, 60, phases=21),
        SAN("decompositions", "c19_decomp.cpp", [], 24, 300, phases=35),
        SAN("paths", "c17_paths.cpp", [], 10, 60, phases=15),
        SAN("transforms", "c18_transforms.cpp", [], 12, 100, phases=9),
    ],
}
PROPS["C20"] = {
    "heap": True, "engine": "mcx-heap",
    "rule": "each case is executed under four heap schedules: ascending / descending addresses x {no reuse, LIFO or FIFO reuse with unrelated allocations interleaved and a 0xA5 fill}; results must be bit-identical (VPSC positions, removeoverlaps rectangles, polyline and orthogonal routes, pin assignment) or equal to 1e-9 (libcola and HOLA positions). VPSC problems are additionally shifted by 2^-10, 1025*2^-10 and -3072 and mirrored; routing scenes are translated by (2^-10,0), (1025*2^-10,-3), (-3072,4096.5) (routes must translate exactly) and put through the seven non-trivial symmetries of the square (costs equal to 1e-9); removeoverlaps inputs are translated. Alphabets: VPSC n<=3 m<=2(3); removeoverlaps n<=3 on grid 3; routing G=3/4 with <=2 shapes; two-shape pin scenes; libcola n=3 with constraints; HOLA all labelled connected graphs n<=4(5). Independence of variable/constraint ids and order is decided under C02. Non-trivial = every case (each is a comparison of several executions).",
    "bounds": {"quick": "VPSC n<=3 m<=2; removeoverlaps (3,3); routing G=3 two shapes (polyline), G=4 two rects (orthogonal); HOLA n<=4", "thorough": "VPSC m<=3; removeoverlaps (4,2); polyline G=4; HOLA n=5; every cola placement"},
    "assumptions": ["heap nondeterminism is owned by replacing global operator new/delete (mcx/arena.h); two runs under the same schedule are bit-identical (checked by the harness design, see DESIGN.md)"],
    "parts": [{"name": "determinism", "src": "c20_determinism.cpp", "quick": T(150, 60, [], 100), "thorough": T(1700, 120, [], 100)}],
}
NOT_APPLICABLE = {}

# The bounds strings above name the core alphabets; the families added in the later rounds (DESIGN.md section 9) are not repeated here --
# the evidence file written by every run lists each phase with its number of cases, and that listing is the authoritative statement of what was covered.
for _p in PROPS.values():
    for _t in ("quick", "thorough"):
        if isinstance(_p.get("bounds"), dict) and _t in _p["bounds"] and "later rounds" not in _p["bounds"][_t]:
            _p["bounds"][_t] += "; plus the families added in the later rounds (DESIGN.md section 9): every phase is listed with its case count in the evidence file"
