"""Per-property configuration: which harness parts decide it, with which bounds."""

def T(deadline, case_limit=20, args=(), floor=2):
    return {"deadline": deadline, "case_limit": case_limit, "args": list(args), "floor": floor}

PROPS = {}

PROPS["C01"] = {
    "rule": "every multiset of <=m separation constraints over {ordered pairs}x{gap -1,0,2}x{<=,==} on n variables x desired in {0,1,3}^n x weights in {1,4}^n x 3 scale vectors, run through vpsc::IncSolver/Solver and Avoid::IncSolver (solve and satisfy); plus every operation history of fixed depth over {addConstraint(12-15 constraints), desired[v]:=0|3, solve, satisfy} on one live IncSolver. A case is non-trivial if the system is infeasible or some constraint is active at the result.",
    "bounds": {"quick": "instances n<=3,m<=3 (+2 scaled variants); histories depth<=5 (n=3)", "thorough": "instances n=3 m<=5, n=4 m<=4; histories depth<=6 (n=3), depth 5 (n=4)"},
    "assumptions": ["oracle: Bellman-Ford positive-cycle test and active-set QP in oracle/qp.h", "static Solver is specified for acyclic constraint graphs: a throw on a cyclic graph is not counted"],
    "parts": [{"name": "vpsc", "src": "c01_vpsc.cpp", "quick": T(100, 10, ["--prop", "C01"], 1000), "thorough": T(1500, 10, ["--prop", "C01"], 1000)}],
}
PROPS["C02"] = {
    "rule": "same instance and history alphabets as C01 restricted to executions without flag/throw; solve() positions compared with the unique optimum from an active-set QP oracle (1e-5 x problem scale); all n!*m! permutations of variable slots/ids and constraint order must agree to 1e-9. Non-trivial = at least one constraint active at the optimum.",
    "bounds": {"quick": "instances n<=3,m<=3; permutations n<=3,m<=2; histories depth<=5 incl. scaled", "thorough": "instances n=3 m<=5, n=4 m<=4; permutations n=4 m<=3; histories depth 6"},
    "assumptions": ["oracle: active-set enumeration QP in oracle/qp.h (exact for m<=12)"],
    "parts": [{"name": "vpsc", "src": "c01_vpsc.cpp", "quick": T(100, 10, ["--prop", "C02"], 1000), "thorough": T(1500, 10, ["--prop", "C02"], 1000)}],
}
NOT_APPLICABLE = {}
