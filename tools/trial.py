#!/usr/bin/env python3
"""Run checks against a patched scratch copy of /repo (never touches /repo).
usage: tools/trial.py <patch.diff> <PROP>[,<PROP>...] [--tier quick|thorough] [--keep]
Exit 0 iff every listed check reported a VIOLATION (i.e. the change was detected)."""
import os, subprocess, sys, shutil, hashlib, tempfile
VERIF = os.path.dirname(os.path.dirname(os.path.abspath(__file__)))
def main():
    patch, props = os.path.abspath(sys.argv[1]), sys.argv[2].split(",")
    tier = sys.argv[sys.argv.index("--tier") + 1] if "--tier" in sys.argv else "quick"
    scratch = tempfile.mkdtemp(prefix="verif-scratch.")
    try:
        os.makedirs(os.path.join(scratch, "cola"))
        for lib in ["libvpsc", "libavoid", "libcola", "libtopology", "libdialect", "libproject"]:
            src = os.path.join("/repo/cola", lib)
            if os.path.isdir(src):
                subprocess.check_call(["rsync", "-a", "--include=*/", "--include=*.cpp", "--include=*.h", "--exclude=*", "--exclude=tests/", src, os.path.join(scratch, "cola/")])
        r = subprocess.run(["patch", "-p1", "-d", scratch, "-i", patch], capture_output=True, text=True)
        if r.returncode != 0:
            print("PATCH FAILED\n" + r.stdout + r.stderr); return 2
        env = dict(os.environ, VERIF_REPO=scratch)
        ok = True
        for p in props:
            r = subprocess.run([os.path.join(VERIF, "check"), p, "--tier", tier, "--no-evidence"], env=env, capture_output=True, text=True)
            lines = [l for l in r.stdout.splitlines() if l.startswith("VIOLATION") or l.startswith(p + " ") or l.startswith("MACHINERY")]
            print("--- %s on %s: exit %d" % (p, os.path.basename(patch), r.returncode))
            for l in lines[:4] + lines[-1:]:
                print("   " + l[:260])
            ok &= (r.returncode == 1)
        return 0 if ok else 1
    finally:
        tag = "-alt-" + hashlib.sha1(scratch.encode()).hexdigest()[:10]
        shutil.rmtree(os.path.join(VERIF, "build") + tag, ignore_errors=True)
        if "--keep" not in sys.argv:
            shutil.rmtree(scratch, ignore_errors=True)
if __name__ == "__main__":
    sys.exit(main())
