#!/bin/bash
# maintenance aid: run the thorough tier of the listed properties once (no evidence), one line per property
for p in "$@"; do
  s=$(date +%s); ./check $p --tier thorough --no-evidence > thorough_$p.log 2>&1; rc=$?
  echo "$p rc=$rc t=$(( $(date +%s)-s )) $(tail -1 thorough_$p.log | cut -c1-200)"
  grep -E "^VIOLATION|^MACHINERY" thorough_$p.log | head -5 | cut -c1-300
done
