#!/bin/bash
# development aid: which lines of the library do the quick tiers execute?   tools/coverage.sh [PROP ...]  -> build/coverage/*.gcov + summary on stdout
# (a vacuity audit: unexecuted functions in a property's anchor files are regions no alphabet reaches)
cd "$(dirname "$0")/.."
props=${@:-C01 C02 C03 C04 C05 C06 C07 C08 C09 C10 C11 C12 C13 C14 C16 C17 C18 C19 C20}
find build/cov -name '*.gcda' -delete 2>/dev/null
for p in $props; do VERIF_VARIANT=cov VERIF_DEADLINE_SCALE=4 VERIF_NO_PHASE_GUARD=1 ./check $p --tier quick --no-evidence 2>&1 | tail -1 | cut -c1-160; done
rm -rf build/coverage; mkdir -p build/coverage; cd build/coverage
for g in ../cov/*.gcda; do gcov -f -o ../cov "$g" > "$(basename "$g" .gcda).summary" 2>/dev/null; done
cd ../..; python3 tools/coverage_report.py
