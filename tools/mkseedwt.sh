#!/bin/bash
# tools/mkseedwt.sh <dir>   -- scratch git worktree of /repo for a seeding sub-agent, configured (autotools files copied
# from /repo/cola, which are untracked there) but not built.  Remove with: git -C /repo worktree remove --force <dir>
set -e
d=$1
git -C /repo worktree add --detach "$d" HEAD >/dev/null
cd /repo/cola
for f in configure aclocal.m4 compile config.guess config.sub depcomp install-sh ltmain.sh missing test-driver Makefile.in m4 \
         lib*/Makefile.in lib*/tests/Makefile.in libcola/config.h.in; do
  [ -e "$f" ] && mkdir -p "$d/cola/$(dirname $f)" && cp -a "$f" "$d/cola/$f"
done
cd "$d/cola" && ./configure --quiet >/dev/null 2>&1
mkdir -p "$d/SEED"
echo "ready: $d"
