#!/usr/bin/env python3
"""tools/save_seed.py <worktree> <seed-id> <property> "<needs>" "<caught by / notes>"  -> seeded/<seed-id>/{patch.diff,demo.cpp,README.md,confirm.log,meta.json}"""
import sys, os, shutil, json, subprocess
VERIF = os.path.dirname(os.path.dirname(os.path.abspath(__file__)))
wt, sid, prop, needs, notes = sys.argv[1:6]
d = os.path.join(VERIF, "seeded", sid); os.makedirs(d, exist_ok=True)
# regenerate the patch from the worktree so that it is exactly what was tested
patch = subprocess.run(["git", "-C", wt, "diff", "--", "cola"], capture_output=True, text=True).stdout
open(os.path.join(d, "patch.diff"), "w").write(patch)
for f in ["demo.cpp", "build_demo.sh", "README.md", "confirm.log"]:
    if os.path.exists(os.path.join(wt, "SEED", f)):
        shutil.copy(os.path.join(wt, "SEED", f), os.path.join(d, f))
confirm = open(os.path.join(d, "confirm.log")).read() if os.path.exists(os.path.join(d, "confirm.log")) else ""
meta = {"id": sid, "breaks_property": prop, "author": "sub-agent that saw only the property text and its own scratch worktree",
        "files_changed": sorted(set(l[6:] for l in patch.splitlines() if l.startswith("+++ b/"))),
        "needs_to_manifest": needs,
        "confirmed_by_me": {"what_i_ran": "make -k check of the changed library and its dependents in the scratch worktree with the change applied; demo.cpp built against the modified worktree and against /repo", "log": confirm.strip().splitlines()},
        "checks": notes}
json.dump(meta, open(os.path.join(d, "meta.json"), "w"), indent=1)
print("saved", d)
