#!/usr/bin/env python3
"""Regenerate MANIFEST.json from tools/props.py (single source of truth)."""
import json, os, sys
VERIF = os.path.dirname(os.path.dirname(os.path.abspath(__file__)))
sys.path.insert(0, os.path.join(VERIF, "tools"))
from props import PROPS, NOT_APPLICABLE
ALL = ["C%02d" % i for i in range(1, 21)]
checks = []
for pid in ALL:
    if pid not in PROPS:
        continue
    c = PROPS[pid]
    checks.append({
        "property_id": pid,
        "quick_cmd": "./check %s --tier quick" % pid,
        "thorough_cmd": "./check %s --tier thorough" % pid,
        "evidence_file": "/verif/evidence/%s.json" % pid,
        "replay_cmd_template": "./check %s --replay {path}" % pid,
        "engine": c.get("engine", "mcx-enum"),
        "level_claimed": {"category": "model_checking",
                          "text": c.get("level_text", "bounded exhaustive exploration of the implementation: every case of the stated finite alphabet is executed on the real library code rebuilt from /repo and judged by an independent reference model; bounds: quick = %s; thorough = %s" % (c.get("bounds", {}).get("quick", ""), c.get("bounds", {}).get("thorough", ""))),
                          "design_ref": "DESIGN.md §%s" % pid},
        "level_note": "; ".join(c.get("assumptions", [])) or "trusted base: g++ 12, the reference models in oracle/",
        "technique": c.get("technique", "explicit-state model checking of the implementation: exhaustive enumeration of inputs/operation histories within stated bounds, oracle = independent reference model"),
    })
na = [{"property_id": p, "reason": NOT_APPLICABLE.get(p, "check not built yet in this round (work in progress; see DESIGN.md)")} for p in ALL if p not in PROPS]
m = {
    "version": 1,
    "setup_cmd": "python3 tools/prebuild.py",
    "hooks": {"guard": "ADAPTAGRAMS_VERIF", "enable": "no source hooks are needed: harnesses use -fno-access-control, #include of library .cpp files, and replacement of global operator new; libraries are rebuilt from /repo by tools/build.py with -DUSE_ASSERT_EXCEPTIONS",
              "baseline_off_cmd": "cd /repo/cola && make -k check", "source_commits": [], "add_only": True},
    "engines": [
        {"name": "mcx-enum", "path": "mcx/mcx.h", "serves_properties": [p for p in ALL if p in PROPS and PROPS[p].get("engine", "mcx-enum") == "mcx-enum"], "kind_free_text": "sharded exhaustive enumerator of finite input/option/history alphabets with crash attribution and replay"},
        {"name": "mcx-bfs", "path": "mcx/mcx.h", "serves_properties": [p for p in ALL if p in PROPS and PROPS[p].get("engine") == "mcx-bfs"], "kind_free_text": "operation-history search (state = history replayed on a fresh object) to a depth bound"},
        {"name": "mcx-heap", "path": "mcx/arena.h", "serves_properties": [p for p in ALL if p in PROPS and PROPS[p].get("heap")], "kind_free_text": "owned heap nondeterminism: allocator schedules {up,down}x{none,lifo,fifo}x{fill} as explorer choices"},
    ],
    "checks": checks,
    "not_applicable": na,
    "notes": "All checks: ./check <ID> --tier quick|thorough. Known findings in known_findings.json. Seeded breaking changes in seeded/. See DESIGN.md.",
}
json.dump(m, open(os.path.join(VERIF, "MANIFEST.json"), "w"), indent=1)
print("MANIFEST: %d checks, %d not_applicable" % (len(checks), len(na)))
