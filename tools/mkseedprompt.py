import json,sys
pid, wt, avoid = sys.argv[1], sys.argv[2], (sys.argv[3] if len(sys.argv)>3 else "")
for l in open('/verif/properties.jsonl'):
    d=json.loads(l)
    if d['id']==pid: break
prop = json.dumps({k:d[k] for k in ('id','title','statement','quantifier','why_tests_cant','anchors')}, indent=1)
print(f"""You are helping to evaluate how well a verification effort guards a semantic property of the C++ project mjwybrow/adaptagrams (libraries libvpsc, libavoid, libcola, libtopology, libdialect under cola/).  Your job: write a REALISTIC REGRESSION -- a small source change a maintainer could plausibly make by mistake (a slip in a comparison, a wrong variable, a dropped update, a reordered step, a cache not invalidated, two sites that each look fine alone) -- that BREAKS the property below while the project still compiles and its whole existing test-suite still passes.

You work ONLY in your own scratch git worktree: {wt}   (sources under {wt}/cola; it is already configured: `cd {wt}/cola && make -j8` builds everything in place with autotools/libtool; static libraries appear as cola/lib*/.libs/lib*.a; `make -k check -j8` inside cola/ (or inside cola/<lib>/tests after building) runs the tests).  Do NOT read or touch /repo, /verif, /root/design_probes or any other directory outside your worktree and /tmp/seed/scratch-{pid} (which you may create for temporary files).  Do not commit; leave your change as uncommitted modifications of tracked files under cola/ (library sources only -- do not edit, add or delete tests, and do not edit build files).

THE PROPERTY (this is all you are told about what is being guarded):
{prop}

Requirements for the change:
1. It must need something SPECIFIC to manifest: a particular multi-step sequence of operations, an unusual or degenerate input, a particular option combination, a particular allocation/ordering circumstance, or two cooperating sites that each look fine alone.  NOT something ordinary use would expose at once, and not something that makes most inputs fail.  Aim for subtle: as few inputs affected as you can manage while still being able to demonstrate it.
2. The project must still compile and the existing test-suite must still pass with the change: run `make -k check` for every library whose code could be affected (libavoid is used by libtopology and libdialect; libvpsc by all; libcola by libtopology and libdialect) and confirm there is no FAIL/ERROR (look at cola/<lib>/tests/test-suite.log).
3. Write a demonstration {wt}/SEED/demo.cpp: a small self-contained program using the public API (private access via -fno-access-control is acceptable if unavoidable) that exercises the specific circumstance, checks the property itself (not just "output differs"), prints what it observed, prints a last line starting with PASS or FAIL, and exits 0 if the property held / 1 if it was violated.  It must FAIL on your changed tree and PASS on the unchanged tree (verify both: save your change with `git diff -- cola > /tmp/seed/scratch-{pid}/change.diff`, `git checkout -- cola`, rebuild and run; then `git apply` the saved diff and rebuild again.  Do NOT use `git stash` -- the stash is shared with other worktrees).
4. Write {wt}/SEED/build_demo.sh taking two arguments, <tree-root> and <output-exe>, that compiles SEED/demo.cpp (located next to the script) against the static libraries of that tree, e.g.
   g++ -std=c++11 -g -O1 -I"$1/cola" "$(dirname "$0")/demo.cpp" "$1"/cola/libavoid/.libs/libavoid.a -o "$2"
   (list the needed .a files in dependency order: libdialect libtopology libcola libavoid libvpsc as required).
5. Write {wt}/SEED/README.md: what you changed and where, why it is a plausible slip, exactly what is needed to trigger it, the concrete failing input/sequence, and the commands you ran with their observed results.
{avoid}
Keep the diff minimal (a few lines).  When finished, reply with a short summary: the file/function changed, the trigger, and the test-suite / demo results you observed.""")
