// after run(), UnsatisfiableConstraintInfo::cc of a reported non-overlap constraint points to a freed object
#include "libcola/cola.h"
#include <cstdio>
using namespace cola;
int main() {
    std::vector<vpsc::Rectangle*> rs; double xs[4]={30,30,10,0}, ys[4]={10,10,0,30};
    for (int i=0;i<4;i++) rs.push_back(new vpsc::Rectangle(xs[i]-15,xs[i]+15,ys[i]-10,ys[i]+10));
    std::vector<Edge> es; es.push_back(Edge(0,1)); es.push_back(Edge(1,2)); es.push_back(Edge(2,3));
    CompoundConstraints ccs; ccs.push_back(new SeparationConstraint(vpsc::XDIM,0,1,15,true)); ccs.push_back(new SeparationConstraint(vpsc::YDIM,0,1,-5,false));
    UnsatisfiableConstraintInfos ux, uy;
    ConstrainedFDLayout alg(rs, es, 30); alg.setConstraints(ccs); alg.setAvoidNodeOverlaps(true); alg.setUnsatisfiableConstraintInfo(&ux,&uy);
    alg.run();
    printf("reported x=%zu y=%zu\n", ux.size(), uy.size());
    for (auto u : ux) printf("%s\n", u->toString().c_str());
    for (auto u : uy) printf("%s\n", u->toString().c_str());
    printf("final: "); for (auto r : rs) printf("(%g,%g) ", r->getCentreX(), r->getCentreY()); printf("\n");
    return 0; }
