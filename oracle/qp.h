// Reference models for separation-constraint problems.  Shares no code with libvpsc.
//   minimise sum w_i (x_i - d_i)^2   s.t.   a_r x_r - a_l x_l >= gap   (== for equalities)
// qp_active_set: enumerate every subset of constraints as the active set, solve the KKT
// system by Gaussian elimination, keep primal+dual feasible candidates, return the cheapest.
// feasible_bf: Bellman-Ford positive-cycle test on the difference constraints (unscaled or
// scaled via substitution y = a x).
#pragma once
#include <vector>
#include <cmath>
#include <algorithm>

namespace oracle {
struct SepC { int l, r; double gap; bool eq; };

inline bool gauss(std::vector<std::vector<double>> &A, std::vector<double> &b, std::vector<double> &x) {
    int n = A.size();
    for (int c = 0; c < n; c++) {
        int p = -1; double best = 1e-12;
        for (int r = c; r < n; r++) if (std::fabs(A[r][c]) > best) { best = std::fabs(A[r][c]); p = r; }
        if (p < 0) return false;
        std::swap(A[p], A[c]); std::swap(b[p], b[c]);
        for (int r = 0; r < n; r++) if (r != c) {
            double f = A[r][c] / A[c][c];
            if (f != 0) { for (int k = c; k < n; k++) A[r][k] -= f * A[c][k]; b[r] -= f * b[c]; }
        }
    }
    x.resize(n);
    for (int i = 0; i < n; i++) x[i] = b[i] / A[i][i];
    return true;
}

// returns false if no feasible point exists
inline bool qp_active_set(int n, const std::vector<double> &d, const std::vector<double> &w, const std::vector<double> &sc,
                          const std::vector<SepC> &cs, std::vector<double> &best, int *nActive = nullptr) {
    int m = cs.size(); double bestCost = 1e300; bool found = false;
    for (unsigned S = 0; S < (1u << m); S++) {
        // an equality left out of S has multiplier 0, which is legitimate iff the point satisfies it
        // anyway (redundant equality); singular (dependent) active sets are skipped because every
        // optimum has a KKT representation with linearly independent active gradients.
        bool ok = true;
        std::vector<int> act;
        for (int i = 0; i < m; i++) if (S >> i & 1) act.push_back(i);
        int k = act.size(), N = n + k;
        std::vector<std::vector<double>> A(N, std::vector<double>(N, 0));
        std::vector<double> b(N, 0), x;
        for (int i = 0; i < n; i++) { A[i][i] = 2 * w[i]; b[i] = 2 * w[i] * d[i]; }
        for (int j = 0; j < k; j++) {
            const SepC &c = cs[act[j]];
            A[c.r][n + j] -= sc[c.r]; A[c.l][n + j] += sc[c.l];
            A[n + j][c.r] += sc[c.r]; A[n + j][c.l] -= sc[c.l]; b[n + j] = c.gap;
        }
        if (!gauss(A, b, x)) continue;   // dependent active set: a smaller subset covers it
        for (int i = 0; i < m && ok; i++) {
            double s = sc[cs[i].r] * x[cs[i].r] - sc[cs[i].l] * x[cs[i].l] - cs[i].gap;
            if (cs[i].eq) { if (std::fabs(s) > 1e-9) ok = false; } else if (s < -1e-9) ok = false;
        }
        for (int j = 0; j < k && ok; j++) if (!cs[act[j]].eq && x[n + j] < -1e-9) ok = false;
        if (!ok) continue;
        double cost = 0;
        for (int i = 0; i < n; i++) cost += w[i] * (x[i] - d[i]) * (x[i] - d[i]);
        if (cost < bestCost - 1e-12) {
            bestCost = cost; best.assign(x.begin(), x.begin() + n); found = true;
            if (nActive) { int na = 0; for (int j = 0; j < k; j++) if (cs[act[j]].eq || x[n + j] > 1e-9) na++; *nActive = na; }
        }
    }
    return found;
}


// Hildreth's dual coordinate ascent for the same QP -- for problems too large for active-set enumeration.  lambda_j >= 0 (free for equalities);
// x = d + 1/2 W^-1 A^T lambda.  Returns false if it has not converged (primal infeasibility above 1e-9 after maxSweeps).
inline bool qp_hildreth(int n, const std::vector<double> &d, const std::vector<double> &w, const std::vector<double> &sc,
                        const std::vector<SepC> &cs, std::vector<double> &x, int maxSweeps = 400000) {
    int m = cs.size(); std::vector<double> lam(m, 0), den(m, 0); x = d;
    for (int j = 0; j < m; j++) { const SepC &c = cs[j]; den[j] = 0.5 * (sc[c.r] * sc[c.r] / w[c.r] + sc[c.l] * sc[c.l] / w[c.l]); }
    for (int sweep = 0; sweep < maxSweeps; sweep++) {
        double worst = 0, moved = 0;
        for (int j = 0; j < m; j++) { const SepC &c = cs[j];
            double s = sc[c.r] * x[c.r] - sc[c.l] * x[c.l] - c.gap;       // slack (>= 0 wanted)
            double nl = lam[j] - s / den[j]; if (!c.eq && nl < 0) nl = 0;
            double dl = nl - lam[j]; if (dl != 0) { lam[j] = nl; x[c.r] += 0.5 * sc[c.r] / w[c.r] * dl; x[c.l] -= 0.5 * sc[c.l] / w[c.l] * dl; moved = std::max(moved, std::fabs(dl)); }
            worst = std::max(worst, c.eq ? std::fabs(s) : std::max(0.0, -s)); }
        if (worst < 1e-11 && moved < 1e-11) return true;
    }
    return false;
}

// y_i = a_i x_i : y_r >= y_l + gap.  positive cycle <=> infeasible
inline bool feasible_bf(int n, const std::vector<SepC> &cs) {
    std::vector<double> dist(n, 0);
    struct E { int a, b; double w; };
    std::vector<E> es;
    for (auto &c : cs) { es.push_back({c.l, c.r, c.gap}); if (c.eq) es.push_back({c.r, c.l, -c.gap}); }
    for (int it = 0; it <= n; it++) {
        bool ch = false;
        for (auto &e : es) if (dist[e.a] + e.w > dist[e.b] + 1e-12) { dist[e.b] = dist[e.a] + e.w; ch = true; }
        if (!ch) return true;
    }
    return false;
}
// does the directed constraint graph contain a cycle (ignoring gaps)?
inline bool has_cycle(int n, const std::vector<SepC> &cs) {
    std::vector<std::vector<int>> adj(n);
    for (auto &c : cs) adj[c.l].push_back(c.r);
    std::vector<int> st(n, 0);
    bool cyc = false;
    std::vector<std::pair<int, size_t>> stack;
    for (int s = 0; s < n && !cyc; s++) if (!st[s]) {
        stack.push_back({s, 0}); st[s] = 1;
        while (!stack.empty() && !cyc) {
            auto &top = stack.back();
            if (top.second < adj[top.first].size()) {
                int v = adj[top.first][top.second++];
                if (st[v] == 1) cyc = true; else if (!st[v]) { st[v] = 1; stack.push_back({v, 0}); }
            } else { st[top.first] = 2; stack.pop_back(); }
        }
        stack.clear();
    }
    return cyc;
}
} // namespace oracle
