// Exact 2-D reference geometry on integer coordinates, and the routing reference models
// built on it.  Shares no code with libavoid.
#pragma once
#include <vector>
#include <cmath>
#include <queue>
#include <algorithm>
#include <cstdint>

namespace geo {
typedef long long ll;
struct P { ll x, y; bool operator==(const P &o) const { return x == o.x && y == o.y; } };
struct Poly { std::vector<P> v; };   // convex, counter-clockwise in the (x right, y up) sense: cross>0 is inside

inline ll cross(P a, P b, P c) { return (b.x - a.x) * (c.y - a.y) - (c.x - a.x) * (b.y - a.y); }
inline ll dot(P a, P b, P c) { return (b.x - a.x) * (c.x - a.x) + (b.y - a.y) * (c.y - a.y); }

// does the segment ab meet the OPEN interior of the convex polygon?  exact (rational parameter interval).
inline bool hitsInterior(const Poly &p, P a, P b) {
    ll loN = 0, loD = 1, hiN = 1, hiD = 1;
    size_t n = p.v.size();
    for (size_t i = 0; i < n; i++) {
        P u = p.v[i], w = p.v[(i + 1) % n];
        ll c = cross(u, w, a), cb = cross(u, w, b), d = cb - c;
        if (d == 0) { if (c <= 0) return false; continue; }
        if (d > 0) { ll N = -c, D = d; if ((__int128)N * loD > (__int128)loN * D) { loN = N; loD = D; } }
        else { ll N = c, D = -d; if ((__int128)N * hiD < (__int128)hiN * D) { hiN = N; hiD = D; } }
    }
    return (__int128)loN * hiD < (__int128)hiN * loD;
}
// same question for double coordinates; the polygon is shrunk inward by eps first (for nudged routes)
inline bool hitsInteriorD(const Poly &p, double ax, double ay, double bx, double by, double eps) {
    double lo = 0, hi = 1; size_t n = p.v.size();
    for (size_t i = 0; i < n; i++) {
        P u = p.v[i], w = p.v[(i + 1) % n];
        double ex = w.x - u.x, ey = w.y - u.y, el = std::hypot(ex, ey);
        double c = (ex * (ay - u.y) - ey * (ax - u.x)) / el - eps, cb = (ex * (by - u.y) - ey * (bx - u.x)) / el - eps;
        double d = cb - c;
        if (std::fabs(d) < 1e-15) { if (c <= 0) return false; continue; }
        double t = -c / d;
        if (d > 0) { if (t > lo) lo = t; } else { if (t < hi) hi = t; }
    }
    return lo < hi - 1e-12;
}
inline bool inClosed(const Poly &p, P q) { for (size_t i = 0; i < p.v.size(); i++) if (cross(p.v[i], p.v[(i + 1) % p.v.size()], q) < 0) return false; return true; }
inline bool inOpen(const Poly &p, P q) { for (size_t i = 0; i < p.v.size(); i++) if (cross(p.v[i], p.v[(i + 1) % p.v.size()], q) <= 0) return false; return true; }
// separating-axis test: do the open interiors of two convex polygons intersect?
inline bool interiorsOverlap(const Poly &a, const Poly &b) {
    for (int pass = 0; pass < 2; pass++) {
        const Poly &p = pass ? b : a; const Poly &q = pass ? a : b; size_t n = p.v.size();
        for (size_t i = 0; i < n; i++) {
            P u = p.v[i], w = p.v[(i + 1) % n]; bool allOut = true;
            for (auto &v : q.v) if (cross(u, w, v) > 0) allOut = false;
            if (allOut) return false;
        }
    }
    return true;
}
// squared distance between two convex polygons is >= d2 ?  (exact enough: vertex-edge distances in double)
inline double segPointDist(P a, P b, P q) {
    double vx = b.x - a.x, vy = b.y - a.y, wx = q.x - a.x, wy = q.y - a.y; double L = vx * vx + vy * vy;
    double t = L > 0 ? std::max(0.0, std::min(1.0, (vx * wx + vy * wy) / L)) : 0;
    return std::hypot(wx - t * vx, wy - t * vy);
}
inline double polyDist(const Poly &a, const Poly &b) {
    if (interiorsOverlap(a, b)) return 0;
    double best = 1e300;
    for (int pass = 0; pass < 2; pass++) {
        const Poly &p = pass ? b : a; const Poly &q = pass ? a : b;
        for (size_t i = 0; i < p.v.size(); i++) for (auto &v : q.v) best = std::min(best, segPointDist(p.v[i], p.v[(i + 1) % p.v.size()], v));
    }
    return best;
}
inline Poly rect(ll x0, ll y0, ll x1, ll y1) { Poly r; r.v = {{x1, y0}, {x1, y1}, {x0, y1}, {x0, y0}}; return r; }

// ---- visibility graph reference ----------------------------------------------------
struct VisGraph {
    std::vector<P> nodes; std::vector<std::vector<char>> vis;
    std::vector<P> prv, nxt;   // polygon neighbours of shape-corner nodes
    // tangent rule: a leg from corner v towards b can belong to a taut path only if b lies weakly on opposite
    // sides of the two polygon edges meeting at v (the two "side wedges"), never in the wedge opposite the shape.
    bool tangent(int v, P b) const {
        if (v < 2) return true;
        ll r = cross(prv[v], nodes[v], b), s = cross(nodes[v], nxt[v], b);
        return (r <= 0 && s >= 0) || (r >= 0 && s <= 0);
    }
    VisGraph(const std::vector<Poly> &shapes, P s, P t, bool tautOnly = false) {
        nodes.push_back(s); nodes.push_back(t); prv.push_back(s); prv.push_back(t); nxt.push_back(s); nxt.push_back(t);
        for (auto &sh : shapes) for (size_t i = 0; i < sh.v.size(); i++) {
            nodes.push_back(sh.v[i]); prv.push_back(sh.v[(i + sh.v.size() - 1) % sh.v.size()]); nxt.push_back(sh.v[(i + 1) % sh.v.size()]);
        }
        int n = nodes.size(); vis.assign(n, std::vector<char>(n, 0));
        for (int u = 0; u < n; u++) for (int v = u + 1; v < n; v++) {
            bool ok = !(nodes[u] == nodes[v]);
            for (auto &sh : shapes) if (ok && hitsInterior(sh, nodes[u], nodes[v])) ok = false;
            if (ok && tautOnly && !(tangent(u, nodes[v]) && tangent(v, nodes[u]))) ok = false;
            vis[u][v] = vis[v][u] = ok;
        }
    }
    bool reachable() const {
        int n = nodes.size(); std::vector<char> seen(n, 0); std::vector<int> st{0}; seen[0] = 1;
        while (!st.empty()) { int u = st.back(); st.pop_back(); if (u == 1) return true; for (int v = 0; v < n; v++) if (!seen[v] && vis[u][v]) { seen[v] = 1; st.push_back(v); } }
        return nodes[0] == nodes[1];
    }
    // min over paths of length + pen * (#non-collinear bends) + 2 pen * (#reversals).  Dijkstra over (vertex, previous).
    // strictTaut: a bend at corner u is only allowed if the path wraps around the shape there (both polygon
    // neighbours of u lie weakly on the inner side of both legs) -- the "rubber band" paths.
    double shortest(double pen, bool strictTaut = false) const {
        int n = nodes.size(); std::vector<double> d((size_t)n * n, 1e18);
        typedef std::pair<double, int> Q; std::priority_queue<Q, std::vector<Q>, std::greater<Q>> pq;
        d[0] = 0; pq.push({0, 0}); double best = 1e18;
        while (!pq.empty()) {
            auto q = pq.top(); pq.pop(); if (q.first > d[q.second]) continue;
            int u = q.second / n, pr = q.second % n;
            if (u == 1) { best = std::min(best, q.first); continue; }
            for (int v = 0; v < n; v++) if (vis[u][v] && v != pr) {
                double c = q.first + std::hypot((double)(nodes[u].x - nodes[v].x), (double)(nodes[u].y - nodes[v].y));
                if (u != 0) {
                    ll cr = cross(nodes[pr], nodes[u], nodes[v]);
                    if (cr != 0 && strictTaut) {
                        ll a1 = cross(nodes[pr], nodes[u], prv[u]), a2 = cross(nodes[pr], nodes[u], nxt[u]);
                        ll b1 = cross(nodes[u], nodes[v], prv[u]), b2 = cross(nodes[u], nodes[v], nxt[u]);
                        bool wraps = cr > 0 ? (a1 >= 0 && a2 >= 0 && b1 >= 0 && b2 >= 0) : (a1 <= 0 && a2 <= 0 && b1 <= 0 && b2 <= 0);
                        if (!wraps) continue;
                    }
                    if (cr != 0) c += pen;
                    else if ((nodes[u].x - nodes[pr].x) * (nodes[v].x - nodes[u].x) + (nodes[u].y - nodes[pr].y) * (nodes[v].y - nodes[u].y) < 0) c += 2 * pen;
                }
                int st = v * n + u; if (c < d[st]) { d[st] = c; pq.push({c, st}); }
            }
        }
        return best;
    }
};

// ---- orthogonal grid reference -----------------------------------------------------
struct R { int x0, y0, x1, y1; };
struct OrthoGrid {
    int G; std::vector<R> rs;
    // optional Hanan restriction: vertical moves only on x-lines in okX, horizontal moves only on y-lines in okY
    // (coordinates as given; empty = every integer line allowed)
    std::vector<int> okX, okY;
    bool noReverse = false;   // forbid in-place U-turns (a real route cannot double back on itself)
    OrthoGrid(int G, const std::vector<R> &rs) : G(G), rs(rs) {}
    bool lineOk(const std::vector<int> &ok, int c) const { return ok.empty() || std::find(ok.begin(), ok.end(), c) != ok.end(); }
    // unit step (x,y)->(x+1,y) is blocked iff its open segment lies in the open interior of a rectangle
    bool blockedH(int x, int y) const { for (auto &r : rs) if (r.y0 < y && y < r.y1 && r.x0 <= x && x + 1 <= r.x1) return true; return false; }
    bool blockedV(int x, int y) const { for (auto &r : rs) if (r.x0 < x && x < r.x1 && r.y0 <= y && y + 1 <= r.y1) return true; return false; }
    // zero-width corridor: the step runs along a line on which two rectangles touch (refused by libavoid by design)
    // min over orthogonal paths of length + pen*bends (reversal = 2 bends); startDirs/endDirs: bitmask of allowed
    // first/last headings (bit k = heading k, 0=E(+x) 1=S(+y) 2=W 3=N), 15 = any.  Grid margin M cells around [0,G].
    double best(int sx, int sy, int tx, int ty, double pen, int startDirs = 15, int endDirs = 15, int M = 0) const {
        int W = G + 2 * M + 1; int N = W * W * 5; std::vector<double> d(N, 1e18);
        auto id = [&](int x, int y, int dir) { return ((x + M) * W + (y + M)) * 5 + dir; };
        typedef std::pair<double, int> Q; std::priority_queue<Q, std::vector<Q>, std::greater<Q>> pq;
        d[id(sx, sy, 4)] = 0; pq.push({0, id(sx, sy, 4)});
        int dx[4] = {1, 0, -1, 0}, dy[4] = {0, 1, 0, -1}; double bestc = 1e18;
        while (!pq.empty()) {
            auto q = pq.top(); pq.pop(); if (q.first > d[q.second]) continue;
            int s = q.second, dir = s % 5, xy = s / 5, x = xy / W - M, y = xy % W - M;
            if (x == tx && y == ty && (dir == 4 || (endDirs >> dir & 1))) bestc = std::min(bestc, q.first);
            for (int nd = 0; nd < 4; nd++) {
                if (dir == 4 && !(startDirs >> nd & 1)) continue;
                int nx = x + dx[nd], ny = y + dy[nd];
                if (nx < -M || ny < -M || nx > G + M || ny > G + M) continue;
                bool b = nd == 0 ? blockedH(x, y) : nd == 2 ? blockedH(nx, y) : nd == 1 ? blockedV(x, y) : blockedV(x, ny);
                if (b) continue;
                if (noReverse && dir != 4 && (dir + 2) % 4 == nd) continue;
                if ((nd == 0 || nd == 2) ? !lineOk(okY, y) : !lineOk(okX, x)) continue;
                double c = q.first + 1;
                if (dir != 4 && dir != nd) c += ((dir + 2) % 4 == nd) ? 2 * pen : pen;
                int t = id(nx, ny, nd); if (c < d[t]) { d[t] = c; pq.push({c, t}); }
            }
        }
        return bestc;
    }
};
} // namespace geo
